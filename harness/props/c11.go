package props

import (
	"fmt"
	"math"
	"sort"
	"strings"
	"sync"

	"github.com/ipfs/go-cid"
	"github.com/ipld/go-ipld-prime/datamodel"
	cidlink "github.com/ipld/go-ipld-prime/linking/cid"
	"github.com/ipld/go-ipld-prime/node/basicnode"

	"github.com/ucan-wg/go-ucan/pkg/policy"
	"github.com/ucan-wg/go-ucan/pkg/policy/selector"

	"verifharness/engine"
	"verifharness/refmodel"
)

// St is a policy statement descriptor (JSON-serialisable AST).
type St struct {
	Op   string `json:"op"`
	Sel  string `json:"sel,omitempty"`
	Lit  string `json:"lit,omitempty"` // literal name (comparisons) or pattern (like)
	Kids []St   `json:"kids,omitempty"`
}

func (s St) String() string {
	switch s.Op {
	case "not":
		return "not(" + s.Kids[0].String() + ")"
	case "and", "or":
		var k []string
		for _, c := range s.Kids {
			k = append(k, c.String())
		}
		return s.Op + "[" + strings.Join(k, ", ") + "]"
	case "all", "any":
		return s.Op + " " + s.Sel + " (" + s.Kids[0].String() + ")"
	case "like":
		return "like " + s.Sel + ` "` + s.Lit + `"`
	default:
		return s.Op + " " + s.Sel + " " + s.Lit
	}
}

func (s St) size() int {
	n := 1
	for _, k := range s.Kids {
		n += k.size()
	}
	return n
}

var c11Lits = map[string]datamodel.Node{
	"0": nInt(0), "1": nInt(1), "2": nInt(2), "1.0": nFloat(1.0), "1.5": nFloat(1.5), `"a"`: nStr("a"), "true": nBool(true), "null": nNull(), "[1]": nList(nInt(1)),
	"{x:1,y:2}": nMap(kv{"x", nInt(1)}, kv{"y", nInt(2)}), "[{y:2,x:1}]": nList(nMap(kv{"y", nInt(2)}, kv{"x", nInt(1)})),
	"link(cbor,h0)": nLink(0),
	"0.3":           nFloat(0.3), "10": nInt(10), "8": nInt(8), "[0..9]": nList(nInt(0), nInt(1), nInt(2), nInt(3), nInt(4), nInt(5), nInt(6), nInt(7), nInt(8), nInt(9)),
}
var c11LitNames = []string{"0", "1", "2", "1.0", "1.5", `"a"`, "true", "null", "[1]", "{x:1,y:2}", "[{y:2,x:1}]", "link(cbor,h0)", "10", "8", "[0..9]", "0.3"}

// nLinkAs is a link with the digest of cidPool[i] under another codec or CID version: a different link.
func nLinkAs(i int, codec uint64, v0 bool) datamodel.Node {
	if v0 {
		return basicnode.NewLink(cidlink.Link{Cid: cid.NewCidV0(cidPool[i].Hash())})
	}
	return basicnode.NewLink(cidlink.Link{Cid: cid.NewCidV1(codec, cidPool[i].Hash())})
}

func (s St) constructor() policy.Constructor {
	switch s.Op {
	case "==":
		return policy.Equal(s.Sel, c11Lits[s.Lit])
	case "<":
		return policy.LessThan(s.Sel, c11Lits[s.Lit])
	case "<=":
		return policy.LessThanOrEqual(s.Sel, c11Lits[s.Lit])
	case ">":
		return policy.GreaterThan(s.Sel, c11Lits[s.Lit])
	case ">=":
		return policy.GreaterThanOrEqual(s.Sel, c11Lits[s.Lit])
	case "like":
		return policy.Like(s.Sel, c11PatText(s.Lit))
	case "not":
		return policy.Not(s.Kids[0].constructor())
	case "and", "or":
		var cs []policy.Constructor
		for _, k := range s.Kids {
			cs = append(cs, k.constructor())
		}
		if s.Op == "and" {
			return policy.And(cs...)
		}
		return policy.Or(cs...)
	case "all":
		return policy.All(s.Sel, s.Kids[0].constructor())
	case "any":
		return policy.Any(s.Sel, s.Kids[0].constructor())
	}
	panic("bad op " + s.Op)
}

// c11PatText turns the marker {ff} of a pattern descriptor into the byte 0xff (descriptors travel through JSON replay files).
func c11PatText(lit string) string { return strings.ReplaceAll(lit, "{ff}", "\xff") }

func (s St) policy() policy.Policy {
	p, err := policy.Construct(s.constructor())
	if err != nil {
		panic(fmt.Sprintf("harness: cannot construct %s: %v", s, err))
	}
	return p
}

// ---- reference (classical) semantics ----

type tri int

const (
	triFalse tri = iota
	triTrue
	triDC // the property does not decide (premise false or don't-care zone)
)

func refDeepEqual(a, b datamodel.Node) tri {
	if a.Kind() != b.Kind() {
		return triFalse
	}
	switch a.Kind() {
	case datamodel.Kind_Null:
		return triTrue
	case datamodel.Kind_Bool:
		x, _ := a.AsBool()
		y, _ := b.AsBool()
		return b2t(x == y)
	case datamodel.Kind_Int:
		x, _ := a.AsInt()
		y, _ := b.AsInt()
		return b2t(x == y)
	case datamodel.Kind_Float:
		x, _ := a.AsFloat()
		y, _ := b.AsFloat()
		if math.IsNaN(x) || math.IsNaN(y) {
			return triDC
		}
		return b2t(x == y)
	case datamodel.Kind_String:
		x, _ := a.AsString()
		y, _ := b.AsString()
		return b2t(x == y)
	case datamodel.Kind_Bytes:
		x, _ := a.AsBytes()
		y, _ := b.AsBytes()
		return b2t(string(x) == string(y))
	case datamodel.Kind_Link:
		x, _ := a.AsLink()
		y, _ := b.AsLink()
		return b2t(x.String() == y.String())
	case datamodel.Kind_List:
		if a.Length() != b.Length() {
			return triFalse
		}
		for i := int64(0); i < a.Length(); i++ {
			x, _ := a.LookupByIndex(i)
			y, _ := b.LookupByIndex(i)
			if r := refDeepEqual(x, y); r != triTrue {
				return r
			}
		}
		return triTrue
	case datamodel.Kind_Map:
		if a.Length() != b.Length() {
			return triFalse
		}
		it := a.MapIterator()
		for !it.Done() {
			k, x, _ := it.Next()
			ks, _ := k.AsString()
			y, err := b.LookupByString(ks)
			if err != nil {
				return triFalse
			}
			if r := refDeepEqual(x, y); r != triTrue {
				return r
			}
		}
		return triTrue
	}
	return triDC
}

func b2t(b bool) tri {
	if b {
		return triTrue
	}
	return triFalse
}

func refOrdered(op string, v, c datamodel.Node) tri {
	var cmp int
	switch {
	case v.Kind() == datamodel.Kind_Int && c.Kind() == datamodel.Kind_Int:
		x, _ := v.AsInt()
		y, _ := c.AsInt()
		cmp = sign64(x - y)
		if (x > y) != (cmp > 0) { // overflow guard
			if x > y {
				cmp = 1
			} else {
				cmp = -1
			}
		}
	case v.Kind() == datamodel.Kind_Float && c.Kind() == datamodel.Kind_Float:
		x, _ := v.AsFloat()
		y, _ := c.AsFloat()
		if math.IsNaN(x) || math.IsNaN(y) {
			// not a number: under the classical reading no ordering statement about it is true
			return triFalse
		}
		if math.IsInf(x, 0) || math.IsInf(y, 0) {
			return triDC // infinities are not numbers of the IPLD data model; the implementation documents "false", the property does not fix it
		}
		switch {
		case x < y:
			cmp = -1
		case x > y:
			cmp = 1
		}
	default:
		return triFalse // numbers of the same kind only
	}
	switch op {
	case "<":
		return b2t(cmp < 0)
	case "<=":
		return b2t(cmp <= 0)
	case ">":
		return b2t(cmp > 0)
	case ">=":
		return b2t(cmp >= 0)
	}
	panic(op)
}

func sign64(x int64) int {
	switch {
	case x < 0:
		return -1
	case x > 0:
		return 1
	}
	return 0
}

var selMemo sync.Map

// c11RefSels: selectors whose numerals are written with leading zeros get their meaning from the reference
// (decimal), not from the parser under test: .l[010] is element 10, .l[:010] the first ten, .l[-011:] the last eleven.
var c11RefSels = map[string][]refmodel.Seg{
	".l[010]":   {{Kind: "field", Field: "l"}, {Kind: "index", Index: 10, Spell: "010"}},
	".l[:010]":  {{Kind: "field", Field: "l"}, {Kind: "slice", Hi: ip(10), Spell: ":010"}},
	".l[-011:]": {{Kind: "field", Field: "l"}, {Kind: "slice", Lo: ip(-11), Spell: "-011:"}},
	// two slices in a row, each with its own bounds: the second element, as a one-element list
	".l[1:][:1]": {{Kind: "field", Field: "l"}, {Kind: "slice", Lo: ip(1), Spell: "1:"}, {Kind: "slice", Hi: ip(1), Spell: ":1"}},
}

var errRefSel = fmt.Errorf("reference: the selector does not resolve")

// c11Select resolves a selector on data: through the reference for the selectors of c11RefSels, else with the real Select.
func c11Select(sel string, data datamodel.Node) (datamodel.Node, error) {
	if segs, ok := c11RefSels[sel]; ok {
		r := refmodel.Resolve(segs, data)
		switch r.Status {
		case refmodel.SelValue:
			return r.Node, nil
		case refmodel.SelNoValue:
			return nil, nil
		default:
			return nil, errRefSel
		}
	}
	return parsedSel(sel).Select(data)
}

func parsedSel(s string) selector.Selector {
	if strings.Contains(s, "-") {
		// selectors with negative bounds are parsed afresh for every use: the reference must not share
		// a parsed value that an evaluation could have rebased for one particular length
		sel, err := selector.Parse(s)
		if err != nil {
			panic(err)
		}
		return sel
	}
	if v, ok := selMemo.Load(s); ok {
		return v.(selector.Selector)
	}
	sel, err := selector.Parse(s)
	if err != nil {
		panic(err)
	}
	selMemo.Store(s, sel)
	return sel
}

// classical evaluates s on data under the classical reading. It returns triDC
// when some selector the statement needs does not resolve (premise of the truth
// clause is false) or a don't-care zone is hit.
func classical(s St, data datamodel.Node) tri {
	switch s.Op {
	case "not":
		switch classical(s.Kids[0], data) {
		case triTrue:
			return triFalse
		case triFalse:
			return triTrue
		}
		return triDC
	case "and", "or":
		if s.Op == "or" && len(s.Kids) == 0 {
			return triDC
		}
		res := b2t(s.Op == "and")
		for _, k := range s.Kids {
			r := classical(k, data)
			if r == triDC {
				return triDC
			}
			if s.Op == "and" && r == triFalse {
				res = triFalse
			}
			if s.Op == "or" && r == triTrue {
				res = triTrue
			}
		}
		return res
	case "all", "any":
		v, err := c11Select(s.Sel, data)
		if err != nil || v == nil || v.Kind() != datamodel.Kind_List {
			return triDC
		}
		res := b2t(s.Op == "all")
		it := v.ListIterator()
		for !it.Done() {
			_, e, _ := it.Next()
			r := classical(s.Kids[0], e)
			if r == triDC {
				return triDC
			}
			if s.Op == "all" && r == triFalse {
				res = triFalse
			}
			if s.Op == "any" && r == triTrue {
				res = triTrue
			}
		}
		return res
	}
	v, err := c11Select(s.Sel, data)
	if err != nil || v == nil {
		return triDC
	}
	switch s.Op {
	case "==":
		return refDeepEqual(v, c11Lits[s.Lit])
	case "like":
		str, err := v.AsString()
		if err != nil {
			return triFalse
		}
		toks, ok := refmodel.GlobParse(c11PatText(s.Lit))
		if !ok {
			panic("bad pattern")
		}
		return b2t(refmodel.GlobMatch(toks, str))
	default:
		return refOrdered(s.Op, v, c11Lits[s.Lit])
	}
}

// ---- data ----

type c11Datum struct {
	Name string
	Node datamodel.Node
	// LPerm names the datum identical except that .l is permuted; LPrefixOf names
	// data whose .l extends this one's by one element.
	A, B, L string
}

var c11AVals = []namedNode{
	{"-", nil}, {"0", nInt(0)}, {"1", nInt(1)}, {"2", nInt(2)}, {"2^53-1", nInt(1<<53 - 1)}, {"int64-min", nInt(math.MinInt64)}, {"int64-max", nInt(math.MaxInt64)}, {"-1", nInt(-1)}, {"1.5", nFloat(1.5)}, {"1.0", nFloat(1.0)},
	{"NaN", nFloat(math.NaN())}, {"+Inf", nFloat(math.Inf(1))}, {`"a"`, nStr("a")}, {`"ab"`, nStr("ab")}, {"true", nBool(true)}, {"null", nNull()},
	{"[]", nList()}, {"[1]", nList(nInt(1))}, {"[1,2]", nList(nInt(1), nInt(2))}, {"[2,1]", nList(nInt(2), nInt(1))}, {"{}", nMap()},
	{`"0"x1000+"7"`, nStr(strings.Repeat("0", 1000) + "7")}, {`"0"x1000`, nStr(strings.Repeat("0", 1000))},
	// maps are unordered: the same entries inserted in either order, as a value and inside a list
	{"{x:1,y:2}", nMap(kv{"x", nInt(1)}, kv{"y", nInt(2)})}, {"{y:2,x:1}", nMap(kv{"y", nInt(2)}, kv{"x", nInt(1)})}, {"{x:1,y:3}", nMap(kv{"x", nInt(1)}, kv{"y", nInt(3)})},
	{"[{x:1,y:2}]", nList(nMap(kv{"x", nInt(1)}, kv{"y", nInt(2)}))},
	// floats one unit in the last place (and four) away from a literal: == is exact
	{"0.1+0.2", nFloat(0.1 + 0.2)}, {"nextafter(1.5)", nFloat(math.Nextafter(1.5, 2))}, {"1.5+4ulp", nFloat(1.5 + 4*(math.Nextafter(1.5, 2)-1.5))}, {"nextbefore(1.0)", nFloat(math.Nextafter(1.0, 0))},
	// strings that are not UTF-8: a byte is a byte (0xff is not 0xfe, neither is U+FFFD)
	{`"a"+0xfe`, nStr("a\xfe")}, {`"a"+0xff`, nStr("a\xff")}, {`"a"+U+FFFD`, nStr("a\uFFFD")},
	// links: equal only if the whole CID is (version, codec and multihash)
	{"link(cbor,h0)", nLink(0)}, {"link(cbor,h1)", nLink(1)}, {"link(raw,h0)", nLinkAs(0, cid.Raw, false)}, {"link(v0,h0)", nLinkAs(0, 0, true)}, {"[link(raw,h0)]", nList(nLinkAs(0, cid.Raw, false))},
}
var c11BVals = []namedNode{{"-", nil}, {`"a"`, nStr("a")}, {`"b"`, nStr("b")}, {"1", nInt(1)}}
var c11LVals = []namedNode{
	{"-", nil}, {"[]", nList()}, {"[1]", nList(nInt(1))}, {"[2]", nList(nInt(2))}, {"[1,2]", nList(nInt(1), nInt(2))}, {"[2,1]", nList(nInt(2), nInt(1))},
	{"[1,{x:1}]", nList(nInt(1), nMap(kv{"x", nInt(1)}))}, {"[{x:1},1]", nList(nMap(kv{"x", nInt(1)}), nInt(1))}, {"[{x:1},{x:2}]", nList(nMap(kv{"x", nInt(1)}), nMap(kv{"x", nInt(2)}))},
	{"5", nInt(5)},
	{"[0..11]", nList(nInt(0), nInt(1), nInt(2), nInt(3), nInt(4), nInt(5), nInt(6), nInt(7), nInt(8), nInt(9), nInt(10), nInt(11))},
}

func c11Data(aNames, bNames, lNames []string) []c11Datum {
	in := func(n string, set []string) bool {
		if set == nil {
			return true
		}
		for _, s := range set {
			if s == n {
				return true
			}
		}
		return false
	}
	var res []c11Datum
	for _, a := range c11AVals {
		if !in(a.Name, aNames) {
			continue
		}
		for _, b := range c11BVals {
			if !in(b.Name, bNames) {
				continue
			}
			for _, l := range c11LVals {
				if !in(l.Name, lNames) {
					continue
				}
				var es []kv
				if a.Node != nil {
					es = append(es, kv{"a", a.Node})
				}
				if b.Node != nil {
					es = append(es, kv{"b", b.Node})
				}
				if l.Node != nil {
					es = append(es, kv{"l", l.Node})
				}
				res = append(res, c11Datum{Name: fmt.Sprintf("{a:%s,b:%s,l:%s}", a.Name, b.Name, l.Name), Node: nMap(es...), A: a.Name, B: b.Name, L: l.Name})
			}
		}
	}
	return res
}

// mp evaluates (Match, PartialMatch) of a single-statement policy.
func mp(p policy.Policy, d datamodel.Node) (bool, bool) {
	m, _ := p.Match(d)
	pm, _ := p.PartialMatch(d)
	return m, pm
}

// resClass names the four-valued result of a statement seen from outside.
func resClass(s St, d datamodel.Node) string {
	m, pm := mp(s.policy(), d)
	switch {
	case m && pm:
		// distinguish T from optional-no-data through negation
		nm, _ := mp(St{Op: "not", Kids: []St{s}}.policy(), d)
		if nm {
			return "O"
		}
		return "T"
	case !m && pm:
		return "N"
	case !m && !pm:
		return "F"
	}
	return "?"
}

func kidsClasses(kids []St, d datamodel.Node) string {
	var cs []string
	for _, k := range kids {
		cs = append(cs, resClass(k, d))
	}
	sort.Strings(cs)
	return strings.Join(cs, ",")
}

// ---- sub-checks ----

type c11Case struct {
	S    St     `json:"s"`
	Data string `json:"data,omitempty"` // datum name; empty = every datum of the sub-check
	T    *St    `json:"t,omitempty"`    // second statement (concatenation clause)
	X    *St    `json:"x,omitempty"`    // extra operand (monotonicity clause)
}

func (c *c11Case) Weight() int {
	w := c.S.size()
	if c.T != nil {
		w += c.T.size()
	}
	return w
}

// a wildcard followed by a long literal that keeps almost matching inside a long run
var c11LongPat = "*" + strings.Repeat("0", 40) + "7"

var c11Sels = []string{".a", ".b", ".m?", ".m", ".l", ".", ".l[-1:]", ".l[010]", ".l[:010]", ".l[-011:]", ".l[1:][:1]"}

func c11Atoms() []St {
	var r []St
	for _, op := range []string{"==", "<", "<=", ">", ">="} {
		for _, sel := range c11Sels {
			for _, lit := range c11LitNames {
				r = append(r, St{Op: op, Sel: sel, Lit: lit})
			}
		}
	}
	for _, sel := range c11Sels {
		for _, pat := range []string{"a*", "*", "b", "a*a", "a*b", `a\*`, c11LongPat, "a{ff}*", "a{ff}", "*\uFFFD"} {
			r = append(r, St{Op: "like", Sel: sel, Lit: pat})
		}
	}
	return r
}

func c11AtomSub() *engine.Sub {
	data := c11Data(nil, []string{"-", `"a"`, "1"}, []string{"-", "[1,2]", "[1]", "[2,1]", "[]", "[0..11]"})
	byName := map[string]c11Datum{}
	for _, d := range data {
		byName[d.Name] = d
	}
	return &engine.Sub{
		Name:   "atoms-truth",
		Repeat: true,
		Rule:   "every comparison atom (5 operators x 10 selectors (one with a negative slice bound, three with numerals written with leading zeros, whose meaning - decimal - comes from the reference) x 16 literals) and like atom (7 selectors x 10 patterns, three of them with a byte that is not UTF-8 / U+FFFD) as a top-level statement, on every datum {a in 37 values, b in 3, l in 6 (lists of several lengths up to 12, so that one parsed selector meets them all)}: if the selector resolves, Match = PartialMatch = classical truth (same-kind numbers only; an ordering statement with a NaN operand is false; infinite operands of ordering operators and == on NaN are don't-care); if required data is missing Match=false and PartialMatch=true; if optional data is missing both are true; non-trivial = selector resolves",
		Bound:  func(string) string { return fmt.Sprintf("%d atoms x %d data", len(c11Atoms()), len(data)) },
		Gen: func(tier string, emit func(any) bool) {
			for _, a := range c11Atoms() {
				if !emit(&c11Case{S: a}) {
					return
				}
			}
		},
		NewCase: func() any { return &c11Case{} },
		Run: func(ctx *engine.Ctx, c any) {
			cs := c.(*c11Case)
			p := cs.S.policy()
			for _, d := range data {
				if cs.Data != "" && d.Name != cs.Data {
					continue
				}
				ctx.Eval(2)
				ctx.States(1)
				ctx.Trans(1)
				m, pm := mp(p, d.Node)
				rc := &c11Case{S: cs.S, Data: d.Name}
				v, err := c11Select(cs.S.Sel, d.Node)
				switch {
				case err != nil:
					ctx.Outcome("required-missing")
					if m || !pm {
						ctx.Failf(rc, "toplevel-missing-required/"+cs.S.Op, "%s on %s: required data missing, want Match=false PartialMatch=true, got %v %v", cs.S, d.Name, m, pm)
					}
				case v == nil:
					ctx.Outcome("optional-missing")
					if !m || !pm {
						ctx.Failf(rc, "toplevel-missing-optional/"+cs.S.Op, "%s on %s: optional data missing, want both true, got %v %v", cs.S, d.Name, m, pm)
					}
				default:
					ctx.Nontrivial(1)
					want := classical(cs.S, d.Node)
					if want == triDC {
						ctx.Outcome("dont-care")
						continue
					}
					ctx.Outcome(fmt.Sprintf("resolved-%v", m))
					if m != (want == triTrue) || pm != m {
						kind := v.Kind().String() + "-vs-" + c11Lits0(cs.S).Kind().String()
						if cs.S.Op == "like" {
							kind = v.Kind().String()
						}
						ctx.Failf(rc, "atom-truth/"+cs.S.Op+"/"+kind, "%s on %s: classical reading says %v, got Match=%v PartialMatch=%v", cs.S, d.Name, want == triTrue, m, pm)
					}
				}
			}
		},
	}
}

func c11Lits0(s St) datamodel.Node {
	if n, ok := c11Lits[s.Lit]; ok {
		return n
	}
	return nStr(s.Lit)
}

// palette of operands for structural exploration
func c11Palette() []St {
	return []St{
		{Op: "==", Sel: ".a", Lit: "1"},
		{Op: ">", Sel: ".a", Lit: "0"},
		{Op: "==", Sel: ".m", Lit: "1"},
		{Op: "==", Sel: ".m?", Lit: "1"},
		{Op: "like", Sel: ".b", Lit: "a*"},
		{Op: "==", Sel: ".a", Lit: `"a"`},
	}
}

func c11Quantifiers(full bool) []St {
	inner := []St{{Op: "==", Sel: ".", Lit: "1"}, {Op: ">", Sel: ".", Lit: "1"}, {Op: "==", Sel: ".x", Lit: "1"}, {Op: "==", Sel: ".x?", Lit: "1"}}
	sels := []string{".l", ".l?", ".m", ".m?"}
	var r []St
	for _, op := range []string{"all", "any"} {
		for _, sel := range sels {
			for _, in := range inner {
				r = append(r, St{Op: op, Sel: sel, Kids: []St{in}})
			}
		}
	}
	if full {
		return r
	}
	// reduced: .l with every inner, .m? and .m with the first inner
	var red []St
	for _, q := range r {
		if q.Sel == ".l" || ((q.Sel == ".m?" || q.Sel == ".m") && q.Kids[0].Sel == "." && q.Kids[0].Op == "==") {
			red = append(red, q)
		}
	}
	return red
}

func seqs(units []St, maxLen int, emit func([]St) bool) bool {
	var rec func(cur []St) bool
	rec = func(cur []St) bool {
		if !emit(cur) {
			return false
		}
		if len(cur) == maxLen {
			return true
		}
		for _, u := range units {
			if !rec(append(cur[:len(cur):len(cur)], u)) {
				return false
			}
		}
		return true
	}
	return rec(nil)
}

// c11Composites enumerates the structural statement universe of the tier.
func c11Composites(tier string, emit func(St) bool) {
	units := append(c11Palette(), c11Quantifiers(tier == "thorough")...)
	for _, q := range c11Quantifiers(true) {
		if !emit(q) {
			return
		}
	}
	for _, u := range units {
		if !emit(St{Op: "not", Kids: []St{u}}) {
			return
		}
	}
	var depth1 []St
	small := c11Palette()
	for _, op := range []string{"and", "or"} {
		if !seqs(units, 3, func(k []St) bool {
			s := St{Op: op, Kids: append([]St{}, k...)}
			return emit(s)
		}) {
			return
		}
		seqs(small, 2, func(k []St) bool {
			depth1 = append(depth1, St{Op: op, Kids: append([]St{}, k...)})
			return true
		})
	}
	// depth 2: negated connectives, connectives over connectives
	for _, d := range depth1 {
		if !emit(St{Op: "not", Kids: []St{d}}) {
			return
		}
		if !emit(St{Op: "not", Kids: []St{{Op: "not", Kids: []St{d}}}}) {
			return
		}
	}
	mixed := append(append([]St{}, small...), depth1...)
	mixed = append(mixed, St{Op: "not", Kids: []St{small[0]}}, St{Op: "not", Kids: []St{small[2]}}, St{Op: "not", Kids: []St{small[3]}})
	for _, op := range []string{"and", "or"} {
		for _, x := range mixed {
			for _, y := range mixed {
				if x.size() == 1 && y.size() == 1 {
					continue // already covered at depth 1
				}
				if !emit(St{Op: op, Kids: []St{x, y}}) {
					return
				}
			}
		}
	}
	if tier == "thorough" {
		// depth 3, size-capped at 7 nodes
		for _, op := range []string{"and", "or"} {
			for _, x := range depth1 {
				for _, y := range depth1 {
					s := St{Op: "not", Kids: []St{{Op: op, Kids: []St{x, {Op: "not", Kids: []St{y}}}}}}
					if s.size() <= 7 {
						if !emit(s) {
							return
						}
					}
				}
			}
		}
	}
}

func permutations(n int) [][]int {
	var res [][]int
	p := make([]int, n)
	for i := range p {
		p[i] = i
	}
	var rec func(k int)
	rec = func(k int) {
		if k == n {
			res = append(res, append([]int{}, p...))
			return
		}
		for i := k; i < n; i++ {
			p[k], p[i] = p[i], p[k]
			rec(k + 1)
			p[k], p[i] = p[i], p[k]
		}
	}
	rec(0)
	return res
}

// forEachConnective calls f with every statement obtained from s by permuting the
// operands of exactly one and/or node (all permutations of that node).
func forEachConnectivePerm(s St, f func(perm St, node St)) {
	var rec func(cur St, rebuild func(St) St)
	rec = func(cur St, rebuild func(St) St) {
		if (cur.Op == "and" || cur.Op == "or") && len(cur.Kids) >= 2 {
			for _, p := range permutations(len(cur.Kids))[1:] {
				nk := make([]St, len(cur.Kids))
				for i, j := range p {
					nk[i] = cur.Kids[j]
				}
				f(rebuild(St{Op: cur.Op, Kids: nk}), cur)
			}
		}
		for i := range cur.Kids {
			i := i
			rec(cur.Kids[i], func(repl St) St {
				nk := append([]St{}, cur.Kids...)
				nk[i] = repl
				c2 := cur
				c2.Kids = nk
				return rebuild(c2)
			})
		}
	}
	rec(s, func(x St) St { return x })
}

func c11StructSub() *engine.Sub {
	var data []c11Datum
	byName := map[string]c11Datum{}
	lPerm := map[string]string{"[1,2]": "[2,1]", "[2,1]": "[1,2]", "[1,{x:1}]": "[{x:1},1]", "[{x:1},1]": "[1,{x:1}]"}
	lExt := map[string][]string{"[]": {"[1]", "[2]"}, "[1]": {"[1,2]", "[1,{x:1}]"}, "[2]": {"[2,1]"}}
	setup := func(tier string) error {
		aN := []string{"-", "0", "1", "2", `"a"`, "1.5"}
		bN := []string{"-", `"a"`, `"b"`}
		if tier != "thorough" {
			bN = []string{"-", `"a"`}
		}
		data = c11Data(aN, bN, nil)
		for _, d := range data {
			byName[d.Name] = d
		}
		return nil
	}
	sibling := func(d c11Datum, l string) (c11Datum, bool) {
		x, ok := byName[fmt.Sprintf("{a:%s,b:%s,l:%s}", d.A, d.B, l)]
		return x, ok
	}
	palette := c11Palette()
	return &engine.Sub{
		Name: "structure",
		Rule: "every composite statement of the tier (quantifiers; negations; and/or over sequences of 0..3 operands from a palette realising true/false/missing-required/missing-optional plus quantifier operands; nested connectives and negations) on every datum: classical truth when all selectors resolve; Match => PartialMatch; order independence under every permutation of every and/or node and of the list visited by all/any; adding an operand to a top-level and (front or back) or an element under a top-level all never turns false into true; non-trivial = statement x datum pairs where not every selector resolves or the statement nests",
		Bound: func(t string) string {
			if t == "thorough" {
				return "operands: 6 palette atoms + 32 quantifiers, and/or of 0..3 operands, depth 2 over 86 depth-1 connectives, depth 3 size<=7; data: a in 6, b in 3, l in 10"
			}
			return "operands: 6 palette atoms + 10 quantifiers, and/or of 0..3 operands, depth 2 over 86 depth-1 connectives; data: a in 6, b in 2, l in 10"
		},
		Setup: setup,
		Gen: func(tier string, emit func(any) bool) {
			c11Composites(tier, func(s St) bool { return emit(&c11Case{S: s}) })
		},
		NewCase: func() any { return &c11Case{} },
		Run: func(ctx *engine.Ctx, c any) {
			cs := c.(*c11Case)
			if len(data) == 0 {
				setup(ctx.Tier)
			}
			p := cs.S.policy()
			ctx.States(1)
			// pre-build permuted variants and extended variants once per statement
			type variant struct {
				p    policy.Policy
				s    St
				node St
			}
			var perms []variant
			forEachConnectivePerm(cs.S, func(ps St, node St) {
				perms = append(perms, variant{p: ps.policy(), s: ps, node: node})
			})
			var exts []variant
			if cs.S.Op == "and" && len(cs.S.Kids) <= 3 {
				for _, u := range palette {
					if cs.X != nil && u.String() != cs.X.String() {
						continue
					}
					back := St{Op: "and", Kids: append(append([]St{}, cs.S.Kids...), u)}
					front := St{Op: "and", Kids: append([]St{u}, cs.S.Kids...)}
					exts = append(exts, variant{p: back.policy(), s: back, node: u}, variant{p: front.policy(), s: front, node: u})
				}
			}
			for _, d := range data {
				if cs.Data != "" && d.Name != cs.Data {
					continue
				}
				ctx.Eval(2)
				ctx.Trans(1)
				m, pm := mp(p, d.Node)
				rc := &c11Case{S: cs.S, Data: d.Name}
				want := classical(cs.S, d.Node)
				if want == triDC || cs.S.size() > 2 {
					ctx.Nontrivial(1)
				}
				ctx.Outcome(fmt.Sprintf("M=%v/P=%v/classical=%d", m, pm, want))
				if want != triDC && (m != (want == triTrue) || pm != m) {
					ctx.Failf(rc, "truth/"+cs.S.Op, "%s on %s: every selector resolves and the classical reading says %v, got Match=%v PartialMatch=%v", cs.S, d.Name, want == triTrue, m, pm)
				}
				if m && !pm {
					ctx.Failf(rc, "match-without-partial/"+cs.S.Op, "%s on %s: Match=true but PartialMatch=false", cs.S, d.Name)
				}
				for _, v := range perms {
					ctx.Eval(2)
					m2, pm2 := mp(v.p, d.Node)
					if m2 != m || pm2 != pm {
						which := "Match"
						if m2 == m {
							which = "PartialMatch"
						}
						ctx.Failf(rc, fmt.Sprintf("order-dependent/%s/%s[%s]", which, v.node.Op, kidsClasses(v.node.Kids, d.Node)),
							"%s vs operand-permuted %s on %s: (Match,Partial) = (%v,%v) vs (%v,%v)", cs.S, v.s, d.Name, m, pm, m2, pm2)
						break
					}
				}
				// element order under all/any
				if other, ok := lPerm[d.L]; ok {
					if d2, ok := sibling(d, other); ok {
						ctx.Eval(2)
						m2, pm2 := mp(p, d2.Node)
						if m2 != m || pm2 != pm {
							ctx.Failf(rc, "order-dependent/elements/"+c11FirstQuant(cs.S), "%s on %s vs on %s (list permuted): (%v,%v) vs (%v,%v)", cs.S, d.Name, d2.Name, m, pm, m2, pm2)
						}
					}
				}
				// monotonicity: one more operand in a top-level and
				for _, v := range exts {
					ctx.Eval(2)
					m2, pm2 := mp(v.p, d.Node)
					if (!m && m2) || (!pm && pm2) {
						x := v.node
						ctx.Failf(&c11Case{S: cs.S, Data: d.Name, X: &x}, fmt.Sprintf("and-not-monotone/and[%s]+%s", kidsClasses(cs.S.Kids, d.Node), resClass(v.node, d.Node)),
							"%s on %s is (%v,%v) but with one more operand %s it becomes (%v,%v)", cs.S, d.Name, m, pm, v.s, m2, pm2)
						break
					}
				}
				// monotonicity: one more element under a top-level all
				if cs.S.Op == "all" && (cs.S.Sel == ".l" || cs.S.Sel == ".l?") {
					for _, ext := range lExt[d.L] {
						if d2, ok := sibling(d, ext); ok {
							ctx.Eval(2)
							m2, pm2 := mp(p, d2.Node)
							if (!m && m2) || (!pm && pm2) {
								ctx.Failf(rc, "all-not-monotone", "%s fails on %s (%v,%v) but passes with one more element %s (%v,%v)", cs.S, d.Name, m, pm, d2.Name, m2, pm2)
							}
						}
					}
				}
			}
		},
	}
}

func c11FirstQuant(s St) string {
	if s.Op == "all" || s.Op == "any" {
		return s.Op
	}
	for _, k := range s.Kids {
		if r := c11FirstQuant(k); r != "" {
			return r
		}
	}
	return ""
}

func c11ConcatSub() *engine.Sub {
	var data []c11Datum
	setup := func(string) error {
		data = c11Data([]string{"-", "0", "1", `"a"`}, []string{"-", `"a"`}, []string{"-", "[1,2]", "[1,{x:1}]"})
		return nil
	}
	stmts := func() []St {
		var r []St
		r = append(r, c11Palette()...)
		r = append(r, c11Quantifiers(false)...)
		for _, u := range c11Palette() {
			r = append(r, St{Op: "not", Kids: []St{u}})
		}
		seqs(c11Palette()[:4], 2, func(k []St) bool {
			if len(k) == 2 {
				r = append(r, St{Op: "and", Kids: append([]St{}, k...)}, St{Op: "or", Kids: append([]St{}, k...)})
			}
			return true
		})
		return r
	}
	return &engine.Sub{
		Name:  "policy-concatenation",
		Rule:  "every ordered pair and triple of statements from a 60-statement set as policies p=[s], q=[t]: Match(p++q) = Match(p) and Match(q), PartialMatch likewise; the empty policy matches; non-trivial = all pairs",
		Bound: func(string) string { return "pairs over ~60 statements x 24 data" },
		Setup: setup,
		Gen: func(tier string, emit func(any) bool) {
			ss := stmts()
			for _, s := range ss {
				for i := range ss {
					t := ss[i]
					if !emit(&c11Case{S: s, T: &t}) {
						return
					}
				}
			}
		},
		NewCase: func() any { return &c11Case{} },
		Run: func(ctx *engine.Ctx, c any) {
			cs := c.(*c11Case)
			if len(data) == 0 {
				setup(ctx.Tier)
			}
			p, q := cs.S.policy(), cs.T.policy()
			pq := append(append(policy.Policy{}, p...), q...)
			ctx.States(1)
			for _, d := range data {
				if cs.Data != "" && d.Name != cs.Data {
					continue
				}
				ctx.Eval(6)
				ctx.Trans(1)
				ctx.Nontrivial(1)
				m1, p1 := mp(p, d.Node)
				m2, p2 := mp(q, d.Node)
				m3, p3 := mp(pq, d.Node)
				ctx.Outcome(fmt.Sprintf("%v%v|%v%v", m1, p1, m2, p2))
				if m3 != (m1 && m2) || p3 != (p1 && p2) {
					ctx.Failf(&c11Case{S: cs.S, T: cs.T, Data: d.Name}, "concat-not-conjunction", "[%s] ++ [%s] on %s: (%v,%v) and (%v,%v) but concatenation gives (%v,%v)", cs.S, *cs.T, d.Name, m1, p1, m2, p2, m3, p3)
				}
				if m0, p0 := mp(policy.Policy{}, d.Node); !m0 || !p0 {
					ctx.Failf(&c11Case{S: cs.S, T: cs.T, Data: d.Name}, "empty-policy-fails", "the empty policy does not match %s", d.Name)
				}
			}
		},
	}
}

func C11() *engine.Check {
	return &engine.Check{
		Property: "C11",
		Level:    "model_checking",
		Subs:     []*engine.Sub{c11AtomSub(), c11SharedSub(), c11WideSub(), c11StructSub(), c11ConcatSub(), c11MapSub(), c11HugeSub(), selCollideSub("C11"), c11ConcSub(), concRaceSub("C11")},
		Assumptions: []string{
			"'every selector resolves' is decided with the real selector.Select per statement (per element under quantifiers); selector semantics are C12's business",
			"don't-care: infinite operands of ordering operators, == on NaN, the empty or, quantifiers over non-lists",
			"classical semantics: == is IPLD deep equality (kinds must agree), orderings compare ints with ints and floats with floats only, like = glob language (refmodel.GlobMatch)",
		},
	}
}
