package props

import (
	"fmt"
	"sort"
	"strings"
	"sync"

	"github.com/ipld/go-ipld-prime"
	"github.com/ipld/go-ipld-prime/codec/dagjson"
	"github.com/ipld/go-ipld-prime/datamodel"

	"github.com/ucan-wg/go-ucan/pkg/policy/selector"

	"verifharness/engine"
	"verifharness/refmodel"
)

func ip(i int) *int { return &i }

// c12Segments is the segment alphabet (101 non-identity segments).
func c12Segments() []refmodel.Seg {
	var segs []refmodel.Seg
	for _, opt := range []bool{false, true} {
		segs = append(segs,
			refmodel.Seg{Kind: "field", Field: "a", Opt: opt},
			refmodel.Seg{Kind: "field", Field: "b", Opt: opt},
			refmodel.Seg{Kind: "field", Field: "a", Quoted: true, Opt: opt},
			refmodel.Seg{Kind: "field", Field: "", Quoted: true, Opt: opt},
			// quoted names with blanks: the name is taken as written
			refmodel.Seg{Kind: "field", Field: "a b", Quoted: true, Opt: opt},
			refmodel.Seg{Kind: "field", Field: " ", Quoted: true, Opt: opt},
		)
	}
	for _, opt := range []bool{false, true} {
		for _, i := range []int{0, 1, -1, -2, 5, -5} {
			segs = append(segs, refmodel.Seg{Kind: "index", Index: i, Opt: opt})
		}
	}
	bounds := []*int{nil, ip(-4), ip(-1), ip(0), ip(1), ip(4)}
	for _, opt := range []bool{false, true} {
		for _, lo := range bounds {
			for _, hi := range bounds {
				if lo == nil && hi == nil {
					continue
				}
				segs = append(segs, refmodel.Seg{Kind: "slice", Lo: lo, Hi: hi, Opt: opt})
			}
		}
	}
	segs = append(segs, refmodel.Seg{Kind: "iter"}, refmodel.Seg{Kind: "iter", Opt: true})
	// non-canonical decimal spellings (leading zeros): same value, decimal reading
	segs = append(segs,
		refmodel.Seg{Kind: "index", Index: 10, Spell: "010"}, refmodel.Seg{Kind: "index", Index: 8, Spell: "08"}, refmodel.Seg{Kind: "index", Index: -10, Spell: "-010"},
		refmodel.Seg{Kind: "index", Index: 0, Spell: "00"}, refmodel.Seg{Kind: "index", Index: 11, Spell: "0011", Opt: true},
		refmodel.Seg{Kind: "slice", Lo: ip(10), Spell: "010:"}, refmodel.Seg{Kind: "slice", Hi: ip(10), Spell: ":010"}, refmodel.Seg{Kind: "slice", Lo: ip(1), Hi: ip(9), Spell: "01:09"},
		refmodel.Seg{Kind: "slice", Lo: ip(-10), Hi: ip(-1), Spell: "-010:-01"},
	)
	return segs
}

type c12Case struct {
	Segs []refmodel.Seg `json:"segs"`
	Data string         `json:"data,omitempty"` // name of one data value; empty = all
}

func (c *c12Case) Weight() int { return len(c.Segs) }

func nodeJSON(n datamodel.Node) string {
	if n == nil {
		return "<no value>"
	}
	b, err := ipld.Encode(n, dagjson.Encode)
	if err != nil {
		return "<unencodable: " + err.Error() + ">"
	}
	return string(b)
}

// multisetEqual compares two lists as multisets of their DAG-JSON encodings.
func multisetEqual(a, b datamodel.Node) bool {
	if a.Kind() != datamodel.Kind_List || b.Kind() != datamodel.Kind_List || a.Length() != b.Length() {
		return false
	}
	enc := func(n datamodel.Node) []string {
		var r []string
		it := n.ListIterator()
		for !it.Done() {
			_, v, _ := it.Next()
			r = append(r, nodeJSON(v))
		}
		sort.Strings(r)
		return r
	}
	x, y := enc(a), enc(b)
	for i := range x {
		if x[i] != y[i] {
			return false
		}
	}
	return true
}

// implStatus classifies the implementation's result.
func implStatus(n datamodel.Node, err error) refmodel.SelStatus {
	switch {
	case err != nil:
		return refmodel.SelError
	case n == nil:
		return refmodel.SelNoValue
	default:
		return refmodel.SelValue
	}
}

// c12Class derives the root-cause class of a disagreement from the first
// segment at which the implementation's prefix results depart from the reference.
func c12Class(segs []refmodel.Seg, v datamodel.Node) string {
	for k := 1; k <= len(segs); k++ {
		pre := segs[:k]
		sel, err := selector.Parse(refmodel.SelText(pre))
		if err != nil {
			return "parse-rejects-wellformed"
		}
		got, gerr := sel.Select(v)
		want := refmodel.Resolve(pre, v)
		if want.Status == refmodel.SelDontCare {
			return "dont-care"
		}
		gs := implStatus(got, gerr)
		same := gs == want.Status
		if same && gs == refmodel.SelValue {
			if want.MapOrder {
				same = multisetEqual(got, want.Node)
			} else {
				same = ipld.DeepEqual(got, want.Node)
			}
		}
		if !same {
			s := segs[k-1]
			in := refmodel.Resolve(segs[:k-1], v)
			inKind := "no-value"
			if in.Status == refmodel.SelValue {
				inKind = in.Node.Kind().String()
			}
			name := s.Kind
			if s.Kind == "field" && s.Field == "" {
				name = "empty-field"
			}
			if s.Opt {
				name += "?"
			}
			prev := ""
			if k >= 2 {
				p := segs[k-2]
				pin := refmodel.Resolve(segs[:k-2], v)
				if pin.Status == refmodel.SelValue && p.Kind == "iter" && pin.Node.Kind() == datamodel.Kind_Map {
					prev = "/after-iter-on-map"
				} else if pin.Status == refmodel.SelValue && p.Kind == "iter" && p.Opt && pin.Node.Kind() == datamodel.Kind_Null {
					prev = "/after-opt-iter-on-null"
				} else if in.Status == refmodel.SelNoValue {
					prev = "/after-failed-optional"
				}
			}
			return fmt.Sprintf("seg:%s/on:%s%s/impl:%s/ref:%s", name, inKind, prev, gs, want.Status)
		}
	}
	return "unlocated"
}

// ---- large values ----

type c12LargeCase struct {
	Kind string       `json:"kind"` // list | bytes | string
	N    int          `json:"n"`
	Seg  refmodel.Seg `json:"seg"`
}

func (c *c12LargeCase) Weight() int { return c.N }

var c12LargeMemo sync.Map

func c12LargeValue(kind string, n int) datamodel.Node {
	key := fmt.Sprint(kind, n)
	if v, ok := c12LargeMemo.Load(key); ok {
		return v.(datamodel.Node)
	}
	var v datamodel.Node
	switch kind {
	case "list":
		items := make([]datamodel.Node, n)
		for i := range items {
			items[i] = nInt(int64(i))
		}
		v = nList(items...)
	case "bytes":
		b := make([]byte, n)
		for i := range b {
			b[i] = byte(i * 7)
		}
		v = nBytes(b)
	default:
		var sb strings.Builder
		for i := 0; i < n; i++ {
			sb.WriteString([]string{"a", "é", "日", "z"}[i%4])
		}
		v = nStr(sb.String())
	}
	c12LargeMemo.Store(key, v)
	return v
}

func c12LargeSub() *engine.Sub {
	return &engine.Sub{
		Name:  "large-values",
		Rule:  "lists, byte strings and (multi-byte) strings of n elements for n on both sides of 256, 4096, 16384 and 65536, resolved with one index or slice segment that keeps almost everything, half, or the last elements (both signs, in and out of range); compared with the per-segment reference; non-trivial = all",
		Bound: func(string) string { return "3 kinds x 9 sizes (255..70000) x 14 segments" },
		Gen: func(tier string, emit func(any) bool) {
			for _, kind := range []string{"list", "bytes", "string"} {
				for _, n := range []int{255, 256, 4095, 4096, 16383, 16384, 16385, 65536, 70000} {
					segs := []refmodel.Seg{
						{Kind: "slice", Lo: ip(1)}, {Kind: "slice", Hi: ip(-1)}, {Kind: "slice", Lo: ip(-2)}, {Kind: "slice", Lo: ip(1), Hi: ip(n - 1)}, {Kind: "slice", Lo: ip(n / 2)}, {Kind: "slice", Hi: ip(n / 2)},
						{Kind: "slice", Lo: ip(0), Hi: ip(n)}, {Kind: "slice", Lo: ip(-n), Hi: ip(n + 5)}, {Kind: "slice", Lo: ip(3), Hi: ip(16384 + 3)},
					}
					if kind != "string" {
						segs = append(segs, refmodel.Seg{Kind: "index", Index: n - 1}, refmodel.Seg{Kind: "index", Index: -n}, refmodel.Seg{Kind: "index", Index: n}, refmodel.Seg{Kind: "index", Index: -n - 1, Opt: true}, refmodel.Seg{Kind: "index", Index: -1})
					}
					for _, sg := range segs {
						if !emit(&c12LargeCase{Kind: kind, N: n, Seg: sg}) {
							return
						}
					}
				}
			}
		},
		NewCase: func() any { return &c12LargeCase{} },
		Run: func(ctx *engine.Ctx, c any) {
			cs := c.(*c12LargeCase)
			v := c12LargeValue(cs.Kind, cs.N)
			segs := []refmodel.Seg{cs.Seg}
			sel, err := selector.Parse(refmodel.SelText(segs))
			ctx.States(1)
			ctx.Eval(1)
			ctx.Trans(1)
			ctx.Nontrivial(1)
			if err != nil {
				ctx.Failf(cs, "parse-rejects-wellformed", "Parse(%s): %v", refmodel.SelText(segs), err)
				return
			}
			got, gerr := sel.Select(v)
			want := refmodel.Resolve(segs, v)
			if want.Status == refmodel.SelDontCare {
				ctx.Outcome("dont-care")
				return
			}
			gs := implStatus(got, gerr)
			ctx.Outcome(gs.String())
			ok := gs == want.Status
			if ok && gs == refmodel.SelValue {
				ok = ipld.DeepEqual(got, want.Node)
			}
			if !ok {
				gl, wl := int64(-1), int64(-1)
				if gs == refmodel.SelValue && (got.Kind() == datamodel.Kind_List) {
					gl = got.Length()
				}
				if want.Status == refmodel.SelValue && want.Node.Kind() == datamodel.Kind_List {
					wl = want.Node.Length()
				}
				ctx.Failf(cs, "large-value/seg:"+cs.Seg.Kind+"/on:"+cs.Kind, "%s on a %s of %d elements: implementation %s (list length %d), reference %s (list length %d)", refmodel.SelText(segs), cs.Kind, cs.N, gs, gl, want.Status, wl)
			}
		},
	}
}

func C12() *engine.Check {
	segAlpha := c12Segments()
	data := selectorData()
	byName := map[string]datamodel.Node{}
	for _, d := range data {
		byName[d.Name] = d.Node
	}
	run := func(ctx *engine.Ctx, c any) {
		cs := c.(*c12Case)
		text := refmodel.SelText(cs.Segs)
		sel, err := selector.Parse(text)
		ctx.States(1)
		if err != nil {
			ctx.Outcome("parse-error")
			ctx.Failf(&c12Case{Segs: cs.Segs, Data: "null"}, "parse-rejects-wellformed", "selector.Parse(%q) rejects a well-formed selector: %v", text, err)
			return
		}
		// (how a parsed selector prints is C14's business, not C12's)
		// sub-selectors for the purely differential compositionality clause
		var headSel, lastSel selector.Selector
		if len(cs.Segs) >= 2 {
			headSel, _ = selector.Parse(refmodel.SelText(cs.Segs[:len(cs.Segs)-1]))
			lastSel, _ = selector.Parse(refmodel.SelText(cs.Segs[len(cs.Segs)-1:]))
		}
		for _, d := range data {
			if cs.Data != "" && d.Name != cs.Data {
				continue
			}
			ctx.Eval(1)
			ctx.Trans(int64(len(cs.Segs)))
			got, gerr := sel.Select(d.Node)
			want := refmodel.Resolve(cs.Segs, d.Node)
			gs := implStatus(got, gerr)
			ctx.Outcome("impl:" + gs.String() + "/ref:" + want.Status.String())
			rc := &c12Case{Segs: cs.Segs, Data: d.Name}
			if want.Status != refmodel.SelDontCare {
				if want.Status != refmodel.SelError || gs != refmodel.SelError {
					ctx.Nontrivial(1)
				}
				same := gs == want.Status
				if same && gs == refmodel.SelValue {
					if want.MapOrder {
						same = multisetEqual(got, want.Node)
					} else {
						same = ipld.DeepEqual(got, want.Node)
					}
				}
				if !same {
					ctx.Failf(rc, c12Class(cs.Segs, d.Node), "Select(%q, %s): implementation %s %s, segment-by-segment reference %s %s", text, d.Name, gs, nodeJSON(got), want.Status, nodeJSON(want.Node))
					continue
				}
			}
			// differential compositionality (no expected values): Select(h.l, v) == Select(l, Select(h, v))
			if headSel != nil && lastSel != nil {
				mid, merr := headSel.Select(d.Node)
				midRef := refmodel.Resolve(cs.Segs[:len(cs.Segs)-1], d.Node)
				if merr == nil && mid != nil && !midRef.MapOrder && midRef.Status != refmodel.SelDontCare {
					ctx.Eval(2)
					g2, e2 := lastSel.Select(mid)
					s2 := implStatus(g2, e2)
					same := s2 == gs
					if same && gs == refmodel.SelValue {
						same = ipld.DeepEqual(g2, got) || (want.MapOrder && multisetEqual(g2, got))
					}
					if !same {
						ctx.Failf(rc, "not-compositional/"+c12Class(cs.Segs, d.Node), "Select(%q, %s) = %s %s but resolving the last segment on the result of the prefix gives %s %s", text, d.Name, gs, nodeJSON(got), s2, nodeJSON(g2))
					}
				}
			}
		}
	}
	gen := func(maxSegs int) func(string, func(any) bool) {
		return func(tier string, emit func(any) bool) {
			n := maxSegs
			if tier == "thorough" {
				n = maxSegs + 1
			}
			if !emit(&c12Case{Segs: []refmodel.Seg{}}) {
				return
			}
			var rec func(cur []refmodel.Seg, depth int) bool
			rec = func(cur []refmodel.Seg, depth int) bool {
				for _, s := range segAlpha {
					nx := append(append([]refmodel.Seg{}, cur...), s)
					if len(nx) == depth {
						if !emit(&c12Case{Segs: nx}) {
							return false
						}
					} else if !rec(nx, depth) {
						return false
					}
				}
				return true
			}
			for depth := 1; depth <= n; depth++ {
				if !rec(nil, depth) {
					return
				}
			}
		}
	}
	return &engine.Check{
		Property: "C12",
		Level:    "model_checking",
		Subs: []*engine.Sub{{
			Name:   "resolve-vs-segmentwise-reference",
			Repeat: true,
			Rule:   "every sequence of segments from a 105-segment alphabet (fields .a .b [\"a\"] [\"\"] [\"a b\"] [\" \"], indexes 0 1 -1 -2 5 -5, slices over bounds {none,-4,-1,0,1,4}, iterator; each with and without '?'; plus 9 leading-zero spellings of indexes and slice bounds) parsed from its text, resolved on " + fmt.Sprint(len(data)) + " IPLD values of every kind; compared with the fold of a per-segment reference (Python slice clamping, negative indexes, by-rune string slices) and, differentially, with resolving the last segment on the implementation's own result for the prefix; non-trivial = not (both error)",
			Bound: func(t string) string {
				return fmt.Sprintf("selectors of 0..%d segments (105^k each) x %d values", tierN(t, 2, 3), len(data))
			},
			Gen:     gen(2),
			NewCase: func() any { return &c12Case{} },
			Run:     run,
		}, c12LargeSub(), c12WrapSub(), selCollideSub("C12"), c12ConcSub(), concRaceSub("C12")},
		Assumptions: []string{
			"don't-care: optional slice/iterator segments that cannot apply; any segment after them; order of a map's values under the iterator (compared as a multiset, and an index/slice on such a list is not compared)",
			"applying a non-optional segment to 'no value' is an error, an optional field/index to 'no value' is 'no value' (a failing segment in the sense of the property)",
		},
	}
}

var _ = strings.Join
