package props

import (
	"fmt"

	"verifharness/engine"
)

// A source that has failed for good - a read deadline that has passed, a connection that timed out - answers every
// Read with the same error, and many such errors call themselves temporary. "Always terminates" includes this
// source: the stream decoders return.

type c09StickyCase struct {
	Art string `json:"artefact"`
	API string `json:"api"`
	Err int    `json:"err"`
	At  int    `json:"at"` // -1 = every offset
}

func (c *c09StickyCase) Weight() int { return c.Err }

func c09StickySub() *engine.Sub {
	apis := readerAPIs()
	var arts []ioArtefact
	setup := func(string) error {
		if arts == nil {
			for _, a := range ioArtefacts() {
				if !a.Huge && !a.Giant {
					arts = append(arts, a)
				}
			}
		}
		return nil
	}
	applies := func(api readerAPI, a ioArtefact) bool {
		return containsStr(api.Formats, a.Format) && (a.Kind == "ctn" || containsStr(api.Kinds, a.Kind))
	}
	return &engine.Sub{
		Name:  "sources-that-keep-failing",
		Rule:  fmt.Sprintf("every stream entry point (%d) on every small matching artefact, fed by a reader that delivers the first k bytes and from then on answers EVERY Read with the same error - EAGAIN, EINTR, a passed deadline, a net-style timeout (errors that call themselves temporary), ErrNoProgress, ErrShortBuffer - for every k in [0, len): the call returns; a decoder still reading after 10000 consecutive failures never returns; non-trivial = all", len(apis)),
		Bound: func(string) string { return "stream entry points x small artefacts x 6 errors x every offset" },
		Setup: setup,
		Gen: func(tier string, emit func(any) bool) {
			setup(tier)
			for _, a := range arts {
				for _, api := range apis {
					if !applies(api, a) {
						continue
					}
					for e := range c18TransientErrors {
						if !emit(&c09StickyCase{Art: a.Name, API: api.Name, Err: e, At: -1}) {
							return
						}
					}
				}
			}
		},
		NewCase: func() any { return &c09StickyCase{} },
		Run: func(ctx *engine.Ctx, c any) {
			cs := c.(*c09StickyCase)
			var a ioArtefact
			for _, x := range arts {
				if x.Name == cs.Art {
					a = x
				}
			}
			var api readerAPI
			for _, x := range apis {
				if x.Name == cs.API {
					api = x
				}
			}
			e := c18TransientErrors[cs.Err]
			ctx.States(1)
			lo, hi := 0, len(a.Data)-1
			if cs.At >= 0 {
				lo, hi = cs.At, cs.At
			}
			for k := lo; k <= hi; k++ {
				sr := &engine.PosReader{Data: a.Data, FailAt: k, Mode: "error", StickyErr: e, MaxFailures: 10000}
				spun := false
				var pan any
				func() {
					defer func() {
						if r := recover(); r != nil {
							if r == engine.ErrSpinning {
								spun = true
								return
							}
							pan = r
						}
					}()
					api.Stream(sr)
				}()
				ctx.Eval(1)
				ctx.Trans(1)
				ctx.Nontrivial(1)
				rc := &c09StickyCase{Art: cs.Art, API: cs.API, Err: cs.Err, At: k}
				switch {
				case spun:
					ctx.Outcome("spins")
					ctx.Failf(rc, "does-not-terminate/persistent-temporary-error/"+api.Name, "%s on %s keeps reading after 10000 consecutive failures with %q from offset %d on: it never returns", api.Name, a.Name, e, k)
					return
				case pan != nil:
					ctx.Outcome("panic")
					ctx.Failf(rc, "panic/persistent-error/"+api.Name, "%s on %s panics when every Read from offset %d on fails with %q: %v", api.Name, a.Name, k, e, pan)
					return
				default:
					ctx.Outcome("returned")
				}
			}
		},
	}
}
