package props

import (
	"crypto/sha256"
	"errors"
	"fmt"
	"sync"

	"github.com/ipfs/go-cid"
	"github.com/multiformats/go-multihash"

	"github.com/ucan-wg/go-ucan/did"
	"github.com/ucan-wg/go-ucan/pkg/args"
	"github.com/ucan-wg/go-ucan/pkg/command"
	"github.com/ucan-wg/go-ucan/pkg/policy"
	"github.com/ucan-wg/go-ucan/token/delegation"
	"github.com/ucan-wg/go-ucan/token/invocation"

	"verifharness/fixtures"
)

// Shared universe of the authorization properties C01 - C05.

var (
	chainOnce  sync.Once
	principals [3]did.DID
	fixedNonce = []byte("verif-nonce-0123")
)

func chainInit() {
	chainOnce.Do(func() {
		ks := fixtures.ByAlg("ed25519")
		for i := 0; i < 3; i++ {
			if ks[i].Err != nil {
				panic(ks[i].Err)
			}
			principals[i] = ks[i].DID
		}
	})
}

// prin maps 0..2 to a principal and anything else to did.Undef.
func prin(i int) did.DID {
	chainInit()
	if i < 0 || i > 2 {
		return did.Undef
	}
	return principals[i]
}

// synthCid returns a deterministic DAG-CBOR/SHA2-256 CIDv1 for an integer label.
func synthCid(label int) cid.Cid {
	h := sha256.Sum256([]byte(fmt.Sprintf("verif-cid-%d", label)))
	mh, err := multihash.Encode(h[:], multihash.SHA2_256)
	if err != nil {
		panic(err)
	}
	return cid.NewCidV1(0x71, mh)
}

var cidPool = func() []cid.Cid {
	p := make([]cid.Cid, 64)
	for i := range p {
		p[i] = synthCid(i)
	}
	return p
}()

// posLoader serves the i-th proof CID from a positional table; nil = missing.
type posLoader struct {
	byCid map[cid.Cid]*delegation.Token
	calls int
}

func (l *posLoader) GetDelegation(c cid.Cid) (*delegation.Token, error) {
	l.calls++
	t, ok := l.byCid[c]
	if !ok || t == nil {
		return nil, delegation.ErrDelegationNotFound
	}
	return t, nil
}

// errLabel classifies the error returned by ExecutionAllowed.
func errLabel(err error) string {
	switch {
	case err == nil:
		return "allowed"
	case errors.Is(err, invocation.ErrNoProof):
		return "ErrNoProof"
	case errors.Is(err, invocation.ErrMissingDelegation):
		return "ErrMissingDelegation"
	case errors.Is(err, invocation.ErrWrongSub):
		return "ErrWrongSub"
	case errors.Is(err, invocation.ErrBrokenChain):
		return "ErrBrokenChain"
	case errors.Is(err, invocation.ErrLastNotRoot):
		return "ErrLastNotRoot"
	case errors.Is(err, invocation.ErrCommandNotCovered):
		return "ErrCommandNotCovered"
	case errors.Is(err, invocation.ErrTokenInvalidNow):
		return "ErrTokenInvalidNow"
	case errors.Is(err, invocation.ErrPolicyNotSatisfied):
		return "ErrPolicyNotSatisfied"
	default:
		return "other-error"
	}
}

func mustDlg(iss, aud, sub int, cmd string, pol policy.Policy, opts ...delegation.Option) *delegation.Token {
	o := []delegation.Option{delegation.WithNonce(fixedNonce)}
	if sub >= 0 && sub <= 2 {
		o = append(o, delegation.WithSubject(prin(sub)))
	}
	o = append(o, opts...)
	t, err := delegation.New(prin(iss), prin(aud), command.Command(cmd), pol, o...)
	if err != nil {
		panic(fmt.Sprintf("harness: delegation.New(%d,%d,%d,%s): %v", iss, aud, sub, cmd, err))
	}
	return t
}

func identityHook(a args.ReadOnly) (*args.Args, error) { return a.WriteableClone(), nil }

// bothVerdicts runs ExecutionAllowed and ExecutionAllowedWithArgsHook(identity).
func bothVerdicts(inv *invocation.Token, ld delegation.Loader) (error, error) {
	e1 := inv.ExecutionAllowed(ld)
	e2 := inv.ExecutionAllowedWithArgsHook(ld, identityHook)
	return e1, e2
}

func commandOf(s string) command.Command { return command.Command(s) }
