package props

import (
	"crypto/sha256"
	"errors"
	"fmt"
	"sync"

	"github.com/ipfs/go-cid"
	"github.com/multiformats/go-multihash"

	"github.com/ucan-wg/go-ucan/did"
	"github.com/ucan-wg/go-ucan/pkg/args"
	"github.com/ucan-wg/go-ucan/pkg/command"
	"github.com/ucan-wg/go-ucan/pkg/policy"
	"github.com/ucan-wg/go-ucan/pkg/policy/literal"
	"github.com/ucan-wg/go-ucan/token/delegation"
	"github.com/ucan-wg/go-ucan/token/invocation"

	"verifharness/engine"
	"verifharness/fixtures"
)

// Shared universe of the authorization properties C01 - C05.

var (
	chainOnce  sync.Once
	principals [3]did.DID
	fixedNonce = []byte("verif-nonce-0123")
)

func chainInit() {
	chainOnce.Do(func() {
		ks := fixtures.ByAlg("ed25519")
		for i := 0; i < 3; i++ {
			if ks[i].Err != nil {
				panic(ks[i].Err)
			}
			principals[i] = ks[i].DID
		}
	})
}

// prin maps 0..2 to a principal and anything else to did.Undef.
func prin(i int) did.DID {
	chainInit()
	if i < 0 || i > 2 {
		return did.Undef
	}
	return principals[i]
}

// synthCid returns a deterministic DAG-CBOR/SHA2-256 CIDv1 for an integer label.
func synthCid(label int) cid.Cid {
	h := sha256.Sum256([]byte(fmt.Sprintf("verif-cid-%d", label)))
	mh, err := multihash.Encode(h[:], multihash.SHA2_256)
	if err != nil {
		panic(err)
	}
	return cid.NewCidV1(0x71, mh)
}

var cidPool = func() []cid.Cid {
	p := make([]cid.Cid, 64)
	for i := range p {
		p[i] = synthCid(i)
	}
	return p
}()

// posLoader serves the i-th proof CID from a positional table; nil = missing.
type posLoader struct {
	byCid map[cid.Cid]*delegation.Token
	calls int
}

func (l *posLoader) GetDelegation(c cid.Cid) (*delegation.Token, error) {
	l.calls++
	t, ok := l.byCid[c]
	if !ok || t == nil {
		return nil, delegation.ErrDelegationNotFound
	}
	return t, nil
}

// errLabel classifies the error returned by ExecutionAllowed.
func errLabel(err error) string {
	switch {
	case err == nil:
		return "allowed"
	case errors.Is(err, invocation.ErrNoProof):
		return "ErrNoProof"
	case errors.Is(err, invocation.ErrMissingDelegation):
		return "ErrMissingDelegation"
	case errors.Is(err, invocation.ErrWrongSub):
		return "ErrWrongSub"
	case errors.Is(err, invocation.ErrBrokenChain):
		return "ErrBrokenChain"
	case errors.Is(err, invocation.ErrLastNotRoot):
		return "ErrLastNotRoot"
	case errors.Is(err, invocation.ErrCommandNotCovered):
		return "ErrCommandNotCovered"
	case errors.Is(err, invocation.ErrTokenInvalidNow):
		return "ErrTokenInvalidNow"
	case errors.Is(err, invocation.ErrPolicyNotSatisfied):
		return "ErrPolicyNotSatisfied"
	default:
		return "other-error"
	}
}

func mustDlg(iss, aud, sub int, cmd string, pol policy.Policy, opts ...delegation.Option) *delegation.Token {
	o := []delegation.Option{delegation.WithNonce(fixedNonce)}
	if sub >= 0 && sub <= 2 {
		o = append(o, delegation.WithSubject(prin(sub)))
	}
	o = append(o, opts...)
	t, err := delegation.New(prin(iss), prin(aud), command.Command(cmd), pol, o...)
	if err != nil {
		panic(fmt.Sprintf("harness: delegation.New(%d,%d,%d,%s): %v", iss, aud, sub, cmd, err))
	}
	return t
}

func identityHook(a args.ReadOnly) (*args.Args, error) { return a.WriteableClone(), nil }

// bothVerdicts runs ExecutionAllowed and ExecutionAllowedWithArgsHook(identity).
func bothVerdicts(inv *invocation.Token, ld delegation.Loader) (error, error) {
	e1 := inv.ExecutionAllowed(ld)
	e2 := inv.ExecutionAllowedWithArgsHook(ld, identityHook)
	return e1, e2
}

func commandOf(s string) command.Command { return command.Command(s) }

var errPanicked = errors.New("harness: the call panicked")

// bothVerdictsGuarded is bothVerdicts for loaders that misbehave: a panic that reaches the caller is reported as errPanicked.
func bothVerdictsGuarded(inv *invocation.Token, ld delegation.Loader) (e1, e2 error) {
	func() {
		defer func() {
			if recover() != nil {
				e1 = errPanicked
			}
		}()
		e1 = inv.ExecutionAllowed(ld)
	}()
	func() {
		defer func() {
			if recover() != nil {
				e2 = errPanicked
			}
		}()
		e2 = inv.ExecutionAllowedWithArgsHook(ld, identityHook)
	}()
	return e1, e2
}

// oddHooks: what a careless or hostile caller-supplied hook may do instead of returning arguments. None of it may turn
// a refusal into "allowed": a chain that the reference refuses is refused whatever the hook returns (a panic that
// reaches the caller is not "allowed" either).
var oddHooks = []struct {
	Name string
	Hook func(args.ReadOnly) (*args.Args, error)
}{
	{"hook-returns-nil-nil", func(args.ReadOnly) (*args.Args, error) { return nil, nil }},
	{"hook-returns-empty-args", func(args.ReadOnly) (*args.Args, error) { return args.New(), nil }},
	{"nil-hook", nil},
}

// oddHooksRefuse charges every odd hook with which ExecutionAllowedWithArgsHook returns nil for a check the reference refuses.
func oddHooksRefuse(ctx *engine.Ctx, cs any, inv *invocation.Token, ld delegation.Loader, why string) {
	for _, h := range oddHooks {
		var e error
		func() {
			defer func() {
				if recover() != nil {
					e = errPanicked
				}
			}()
			e = inv.ExecutionAllowedWithArgsHook(ld, h.Hook)
		}()
		ctx.Eval(1)
		if e == nil {
			ctx.Failf(cs, "allowed-through-"+h.Name, "ExecutionAllowedWithArgsHook with %s returned nil (allowed) for a check that must be refused: %s", h.Name, why)
		}
	}
}

// panickingLoader panics with a chosen value when asked for one CID (a store that lost its connection and whose
// client panics, a nil map behind a cache ...).
type panickingLoader struct {
	delegation.Loader
	at  cid.Cid
	val any
}

func (l panickingLoader) GetDelegation(c cid.Cid) (*delegation.Token, error) {
	if c == l.at {
		panic(l.val)
	}
	return l.Loader.GetDelegation(c)
}

type c0xPanicValue struct{ code int }

// loaderPanicsRefuse: a check that must be refused is not reported as allowed when the loader panics instead of
// answering - whatever the panic carries (text, number, struct: values that are neither errors nor Stringers
// included). The panic may reach the caller; "allowed" may not come back.
func loaderPanicsRefuse(ctx *engine.Ctx, cs any, inv *invocation.Token, ld delegation.Loader, prf []cid.Cid, why string) {
	for pi, at := range prf {
		for vi, val := range []any{"store unavailable", 42, c0xPanicValue{7}} {
			var e error
			func() {
				defer func() {
					if recover() != nil {
						e = errPanicked
					}
				}()
				e = inv.ExecutionAllowed(panickingLoader{ld, at, val})
			}()
			ctx.Eval(1)
			if e == nil {
				ctx.Failf(cs, "allowed-when-the-loader-panics/"+[3]string{"string", "int", "struct"}[vi], "ExecutionAllowed returns nil (allowed) when the loader panics with a %T for proof %d, for a check that must be refused: %s", val, pi, why)
			}
		}
	}
}

// Principal layouts of an n-link chain (link i: issuer = holder i+1, audience = holder i; holder n is
// the subject p0, holder 0 the invoker).
//
//	layout 0: straight - holders cycle through the three principals.
//	layout 1 (n >= 2): the subject re-delegates to itself on top: the root link is p0 -> p0 and the link
//	          below it is issued by the subject too (a subject-issued link before the last position).
//	layout 2 (n >= 3): the authority passes through the subject in the middle of the chain:
//	          root p0 -> p1, then p1 -> p0 (the subject receives authority back), p0 -> p0, p0 -> p1 ...
func layoutCount(n int) int {
	switch {
	case n >= 3:
		return 3
	case n == 2:
		return 2
	}
	return 1
}

func layoutHolder(layout, n, i int) int {
	switch layout {
	case 1:
		if i >= n-1 {
			return 0
		}
		return alignedHolder(n-1, i)
	case 2:
		// holders from the root: p0, p1, p0, then cycling p2, p1, p0 ... towards the leaf
		switch n - i {
		case 0, 2:
			return 0
		case 1:
			return 1
		}
		return (n - i) % 3 // distance 3 is the subject again: it also delegates to itself in mid-chain
	}
	return alignedHolder(n, i)
}

// ---- long chains: one deviation at a position on either side of the usual thresholds ----

type longChainCase struct {
	Len  int    `json:"len"`
	Kind string `json:"kind"` // none | link | subject | missing | loader-error | root-not-self | foreign-root | cmd-widen | policy | expired | not-yet-active
	Pos  int    `json:"pos"`  // link index (0 = leaf) that deviates
}

func (c *longChainCase) Weight() int { return c.Len }

var longChainKinds = map[string][]string{
	"C01": {"link", "subject", "missing", "loader-error", "root-not-self", "foreign-root"},
	"C02": {"cmd-widen"},
	"C03": {"policy"},
	"C04": {"expired", "not-yet-active"},
	"C05": {"none"},
}

func longChainPositions(n int) []int {
	set := map[int]bool{}
	for _, p := range []int{0, 1, 2, 22, 23, 24, 25, 126, 127, 128, 129, 254, 255, 256, 257, 510, 511, 512, 513, 1022, 1023, 1024, 1025, 1026, 2046, 2047, 2048, 2049, 4094, 4095, 4096, 4097, n / 2, n - 3, n - 2, n - 1} {
		if p >= 0 && p < n {
			set[p] = true
		}
	}
	var r []int
	for p := range set {
		r = append(r, p)
	}
	sortInts(r)
	return r
}

func sortInts(a []int) {
	for i := 1; i < len(a); i++ {
		for j := i; j > 0 && a[j] < a[j-1]; j-- {
			a[j], a[j-1] = a[j-1], a[j]
		}
	}
}

// longChainSub: rule-conforming chains of several hundred to several thousand links with exactly
// one deviation (of the kinds owned by the property) at a position on either side of 24, 128, 256,
// 512, 1024, 2048, 4096 and at both ends; dir "sound": a deviating chain must be denied; the
// deviation-free chain (kind none, charged to C05) must be allowed.
func longChainSub(prop string) *engine.Sub {
	kinds := longChainKinds[prop]
	type built struct {
		base map[[3]int]*delegation.Token // (iss, aud, variant)
	}
	polBad := policy.MustConstruct(policy.Equal(".x", literal.Int(2)))
	mk := func(iss, aud, sub int, cmd string, pol policy.Policy, opts ...delegation.Option) *delegation.Token {
		return mustDlg(iss, aud, sub, cmd, pol, opts...)
	}
	return &engine.Sub{
		Name: "long-chains",
		Rule: "principal-aligned, rule-conforming chains of 300, 1100 and 2100 (thorough: 4200) links (holders cycling through the three principals, commands /a throughout under a root /, empty policies, open windows) with exactly ONE deviating link - kinds " + fmt.Sprint(kinds) + " - at every position on either side of 24, 128, 256, 512, 1024, 2048, 4096, in the middle and at both ends; ExecutionAllowed and ExecutionAllowedWithArgsHook: a chain with a deviation must be denied, the deviation-free chain must be allowed; non-trivial = all",
		Bound: func(t string) string {
			if t == "thorough" {
				return "chain lengths {300, 1100, 2100, 4200} x ~30 positions x the property's deviation kinds"
			}
			return "chain lengths {300, 1100, 2100} x ~25 positions x the property's deviation kinds"
		},
		Setup: func(string) error { chainInit(); return nil },
		Gen: func(tier string, emit func(any) bool) {
			lens := []int{300, 1100, 2100}
			if tier == "thorough" {
				lens = append(lens, 4200)
			}
			for _, n := range lens {
				for _, k := range kinds {
					if k == "none" {
						if !emit(&longChainCase{Len: n, Kind: k, Pos: -1}) {
							return
						}
						continue
					}
					for _, p := range longChainPositions(n) {
						if (k == "root-not-self" || k == "foreign-root") && p != n-1 {
							continue
						}
						if k == "cmd-widen" && p >= n-2 {
							continue // the root may carry any command, and / directly under the root / is no widening
						}
						if !emit(&longChainCase{Len: n, Kind: k, Pos: p}) {
							return
						}
					}
				}
			}
		},
		NewCase: func() any { return &longChainCase{} },
		Run: func(ctx *engine.Ctx, c any) {
			cs := c.(*longChainCase)
			n := cs.Len
			holder := func(i int) int { return alignedHolder(n, i) }
			cache := map[[3]int]*delegation.Token{}
			base := func(iss, aud int, root bool) *delegation.Token {
				key := [3]int{iss, aud, 0}
				cmd := "/a"
				if root {
					key[2], cmd = 1, "/"
				}
				if t, ok := cache[key]; ok {
					return t
				}
				t := mk(iss, aud, 0, cmd, nil)
				cache[key] = t
				return t
			}
			byCid := make(map[cid.Cid]*delegation.Token, n)
			prf := make([]cid.Cid, n)
			var failCid cid.Cid
			for i := 0; i < n; i++ {
				prf[i] = synthCid(100000 + i)
				iss, aud := holder(i+1), holder(i)
				d := base(iss, aud, i == n-1)
				if i == cs.Pos {
					switch cs.Kind {
					case "link":
						d = mk((iss+1)%3, aud, 0, "/a", nil) // issued by someone who is not the next link's audience
					case "subject":
						d = mk(iss, aud, 1, "/a", nil)
					case "missing":
						d = nil
					case "loader-error":
						d, failCid = nil, prf[i]
					case "root-not-self":
						d = mk(1, aud, 0, "/", nil) // last link not issued by its subject
					case "foreign-root":
						d = mk(1, aud, 1, "/", nil) // self-issued root of another subject
					case "cmd-widen":
						d = mk(iss, aud, 0, "/", nil) // wider than the /a it received
					case "policy":
						d = mk(iss, aud, 0, "/a", polBad)
					case "expired":
						d = mk(iss, aud, 0, "/a", nil, delegation.WithExpirationIn(-c04TenYears))
					case "not-yet-active":
						d = mk(iss, aud, 0, "/a", nil, delegation.WithNotBeforeIn(c04TenYears))
					}
				}
				if d != nil {
					byCid[prf[i]] = d
				}
			}
			var ld delegation.Loader = &posLoader{byCid: byCid}
			if failCid.Defined() {
				ld = failingLoader{Loader: ld, fails: failCid}
			}
			inv, err := invocation.New(prin(holder(0)), prin(0), "/a", prf, invocation.WithNonce(fixedNonce), invocation.WithoutInvokedAt(), invocation.WithArgument("x", 1))
			if err != nil {
				panic(err)
			}
			ctx.States(1)
			ctx.Nontrivial(1)
			ctx.Trans(int64(n))
			e1, e2 := bothVerdicts(inv, ld)
			ctx.Eval(2)
			ctx.Outcome(errLabel(e1))
			for k, e := range []error{e1, e2} {
				api := [2]string{"ExecutionAllowed", "ExecutionAllowedWithArgsHook"}[k]
				if cs.Kind == "none" {
					if e != nil {
						ctx.Failf(cs, "long-chain/conforming-denied:"+errLabel(e), "%s denies a rule-conforming chain of %d links: %v", api, n, e)
					}
				} else if e == nil {
					ctx.Failf(cs, "long-chain/allowed-despite:"+cs.Kind, "%s allows a chain of %d links whose link #%d deviates (%s)", api, n, cs.Pos, cs.Kind)
				}
			}
		},
	}
}
