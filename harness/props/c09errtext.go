package props

import (
	"bytes"
	"fmt"

	"github.com/ipld/go-ipld-prime/datamodel"

	"github.com/ucan-wg/go-ucan/pkg/policy"
	"github.com/ucan-wg/go-ucan/pkg/policy/selector"
	"github.com/ucan-wg/go-ucan/token"

	"verifharness/engine"
	"verifharness/fixtures"
)

// Strings of an untrusted policy end up in error texts (shortened, quoted, positioned). Every string of a
// family built from one byte class and one length - around the lengths at which texts are cut - is placed in
// every position of a statement: operator, selector, pattern, field name.

type c09ErrTextCase struct {
	Byte int    `json:"byte"`
	Len  int    `json:"len"`
	Mix  string `json:"mix"` // "" = the byte repeated; "ascii-then" = 9 ASCII letters followed by the bytes; "then-ascii"
	Pos  string `json:"pos"`
}

func (c *c09ErrTextCase) Weight() int { return c.Len }

func c09ErrTextSub() *engine.Sub {
	poss := []string{"operator", "operator-of-1-element-list", "selector", "selector-field", "pattern", "nested-operator", "operator-with-4-elements"}
	return &engine.Sub{
		Name:   "hostile-strings-in-error-positions",
		Repeat: true,
		Rule:   "strings made of one byte class - ASCII letter, UTF-8 continuation bytes 0x80 / 0xBF, lead bytes 0xC3 / 0xE2 / 0xF0 without continuation, 0xFF, NUL, the 3 bytes of U+FFFD, the 4 bytes of U+1F600 - repeated to lengths 1, 2, 9, 10, 11, 12, 13, 20, 40, 300 (bare, after 9 ASCII letters, before 9 ASCII letters: every alignment of a multi-byte character with a cut after 10 bytes) in 7 positions of a policy statement (operator of a 1 / 3 / 4-element list, nested operator, selector, quoted field name, pattern), through policy.FromIPLD, through selector.Parse, and as pol of a well-signed delegation through token.FromSealed: a value or an error whose text can be produced; no panic; non-trivial = all",
		Bound:  func(string) string { return "11 byte classes x 10 lengths x 3 mixes x 7 positions x 3 entry points" },
		Gen: func(tier string, emit func(any) bool) {
			for b := 0; b < 11; b++ {
				for _, n := range []int{1, 2, 9, 10, 11, 12, 13, 20, 40, 300} {
					for _, mix := range []string{"", "ascii-then", "then-ascii"} {
						for _, p := range poss {
							if !emit(&c09ErrTextCase{Byte: b, Len: n, Mix: mix, Pos: p}) {
								return
							}
						}
					}
				}
			}
		},
		NewCase: func() any { return &c09ErrTextCase{} },
		Run: func(ctx *engine.Ctx, c any) {
			cs := c.(*c09ErrTextCase)
			units := [][]byte{{'a'}, {0x80}, {0xbf}, {0xc3}, {0xe2}, {0xf0}, {0xff}, {0x00}, {0xef, 0xbf, 0xbd}, {0xf0, 0x9f, 0x98, 0x80}, {0xed, 0xa0, 0x80}}
			s := string(bytes.Repeat(units[cs.Byte], cs.Len))
			switch cs.Mix {
			case "ascii-then":
				s = "abcdefghi" + s
			case "then-ascii":
				s = s + "abcdefghi"
			}
			var stmt datamodel.Node
			switch cs.Pos {
			case "operator":
				stmt = nList(nStr(s), nStr(".a"), nInt(1))
			case "operator-of-1-element-list":
				stmt = nList(nStr(s))
			case "operator-with-4-elements":
				stmt = nList(nStr(s), nStr(".a"), nInt(1), nInt(2))
			case "selector":
				stmt = nList(nStr("=="), nStr("."+s), nInt(1))
			case "selector-field":
				stmt = nList(nStr("=="), nStr(`.["`+s+`"]`), nInt(1))
			case "pattern":
				stmt = nList(nStr("like"), nStr(".a"), nStr(s+`\`))
			default:
				stmt = nList(nStr("not"), nList(nStr("and"), nList(nList(nStr(s), nStr(".a"), nInt(1)))))
			}
			pol := nList(stmt)
			ctx.States(1)
			ctx.Nontrivial(1)
			try := func(name string, f func()) {
				ctx.Eval(1)
				ctx.Trans(1)
				if pan, stack := callNoPanic(f); pan != nil {
					ctx.Outcome("panic")
					ctx.Failf(cs, "panic/"+panicSite(stack), "%s panics on a statement whose %s is %d x byte class %d (%s): %v", name, cs.Pos, cs.Len, cs.Byte, cs.Mix, pan)
				} else {
					ctx.Outcome("returned")
				}
			}
			try("policy.FromIPLD", func() {
				if _, err := policy.FromIPLD(pol); err != nil {
					_ = err.Error()
					_ = fmt.Sprintf("%v %+v %q", err, err, err)
				}
			})
			try("selector.Parse", func() {
				if _, err := selector.Parse("." + s); err != nil {
					_ = err.Error()
				}
				if _, err := selector.Parse(`.["` + s + `"]`); err != nil {
					_ = err.Error()
				}
			})
			p := c10BasePayload("dlg", "ed25519")
			var es []kv
			for _, e := range p.Payload {
				if e.K == "pol" {
					es = append(es, kv{"pol", pol})
				} else {
					es = append(es, e)
				}
			}
			sealed := assemble(fixtures.Get("ed25519", 0), sigPayloadNode(p.Header, p.Tag, nMap(es...)))
			try("token.FromSealed", func() {
				if _, _, err := token.FromSealed(sealed); err != nil {
					_ = err.Error()
				}
			})
		},
	}
}
