package props

import (
	"fmt"
	"math"
	"strings"

	"github.com/ipfs/go-cid"

	"github.com/ucan-wg/go-ucan/pkg/args"
	"github.com/ucan-wg/go-ucan/pkg/policy"
	"github.com/ucan-wg/go-ucan/pkg/policy/literal"
	"github.com/ucan-wg/go-ucan/token/delegation"
	"github.com/ucan-wg/go-ucan/token/invocation"

	"verifharness/engine"
	"verifharness/fixtures"
)

// Statements whose truth C03 decides with its own reference (not with the real Match): pins on links
// (== holds for the identical CID only) and conditions on character slices of non-ASCII strings.

type c03ValStmt struct {
	Name string
	Cons policy.Constructor
	Ref  func(name string, k cid.Cid, isLink bool) bool
}

func runeSlice(s string, lo, hi int) string { // Python slice semantics on characters
	r := []rune(s)
	n := len(r)
	if lo < 0 {
		lo += n
	}
	if hi < 0 {
		hi += n
	}
	if lo < 0 {
		lo = 0
	}
	if hi > n {
		hi = n
	}
	if lo >= hi {
		return ""
	}
	return string(r[lo:hi])
}

func c03ValStmts() []c03ValStmt {
	pin := cidPool[0]
	big := 1 << 30
	return []c03ValStmt{
		{"== .k link(cbor,h0)", policy.Equal(".k", literal.LinkCid(pin)), func(_ string, k cid.Cid, l bool) bool { return l && k.Equals(pin) }},
		{"not(== .k link(cbor,h0))", policy.Not(policy.Equal(".k", literal.LinkCid(pin))), func(_ string, k cid.Cid, l bool) bool { return !(l && k.Equals(pin)) }},
		{"any .ks (== . link(cbor,h0))", policy.Any(".ks", policy.Equal(".", literal.LinkCid(pin))), func(_ string, k cid.Cid, l bool) bool { return l && k.Equals(pin) }},
		{"== .k link(v0,h0)", policy.Equal(".k", literal.LinkCid(cid.NewCidV0(pin.Hash()))), func(_ string, k cid.Cid, l bool) bool { return l && k.Equals(cid.NewCidV0(pin.Hash())) }},
		{"any .ks (== . link(v0,h0))", policy.Any(".ks", policy.Equal(".", literal.LinkCid(cid.NewCidV0(pin.Hash())))), func(_ string, k cid.Cid, l bool) bool { return l && k.Equals(cid.NewCidV0(pin.Hash())) }},
		{"== .k link(raw,h0)", policy.Equal(".k", literal.LinkCid(cid.NewCidV1(cid.Raw, pin.Hash()))), func(_ string, k cid.Cid, l bool) bool { return l && k.Equals(cid.NewCidV1(cid.Raw, pin.Hash())) }},
		{`not(== .name[-4:] ".exe")`, policy.Not(policy.Equal(".name[-4:]", literal.String(".exe"))), func(s string, _ cid.Cid, _ bool) bool { return runeSlice(s, -4, big) != ".exe" }},
		{`not(like .name[-4:] "*exe")`, policy.Not(policy.Like(".name[-4:]", "*exe")), func(s string, _ cid.Cid, _ bool) bool { return !strings.HasSuffix(runeSlice(s, -4, big), "exe") }},
		{`== .name[:-4] "café"`, policy.Equal(".name[:-4]", literal.String("café")), func(s string, _ cid.Cid, _ bool) bool { return runeSlice(s, 0, -4) == "café" }},
		{`== .name[1:3] "af"`, policy.Equal(".name[1:3]", literal.String("af")), func(s string, _ cid.Cid, _ bool) bool { return runeSlice(s, 1, 3) == "af" }},
		{`not(== .name[-1:] "é")`, policy.Not(policy.Equal(".name[-1:]", literal.String("é"))), func(s string, _ cid.Cid, _ bool) bool { return runeSlice(s, -1, big) != "é" }},
		{`== .name[-2:-1] "x"`, policy.Equal(".name[-2:-1]", literal.String("x")), func(s string, _ cid.Cid, _ bool) bool { return runeSlice(s, -2, -1) == "x" }},
		// indexes written with leading zeros are decimal (xs = [0, 1, ..., 11]: xs[010] is 10, not 8; xs[-012] is xs[0])
		{`not(== .xs[010] 10)`, policy.Not(policy.Equal(".xs[010]", literal.Int(10))), func(string, cid.Cid, bool) bool { return false }},
		{`== .xs[010] 10`, policy.Equal(".xs[010]", literal.Int(10)), func(string, cid.Cid, bool) bool { return true }},
		{`== .xs[-011] 1`, policy.Equal(".xs[-011]", literal.Int(1)), func(string, cid.Cid, bool) bool { return true }},
		{`== .xs[010] 8`, policy.Equal(".xs[010]", literal.Int(8)), func(string, cid.Cid, bool) bool { return false }},
		{`not(== .xs[-012] 0)`, policy.Not(policy.Equal(".xs[-012]", literal.Int(0))), func(string, cid.Cid, bool) bool { return false }},
		{`== .xs[007:011] [7]`, policy.Equal(".xs[007:011]", nList(nInt(7))), func(string, cid.Cid, bool) bool { return false }},
		// float bounds are exact: f is the next float above 0.3, g the next one below (an argument that misses the bound by one ulp misses it)
		{`<= .f 0.3`, policy.LessThanOrEqual(".f", literal.Float(0.3)), func(string, cid.Cid, bool) bool { return false }},
		{`not(> .f 0.3)`, policy.Not(policy.GreaterThan(".f", literal.Float(0.3))), func(string, cid.Cid, bool) bool { return false }},
		{`>= .g 0.3`, policy.GreaterThanOrEqual(".g", literal.Float(0.3)), func(string, cid.Cid, bool) bool { return false }},
		{`< .g 0.3`, policy.LessThan(".g", literal.Float(0.3)), func(string, cid.Cid, bool) bool { return true }},
		{`> .f 0.3`, policy.GreaterThan(".f", literal.Float(0.3)), func(string, cid.Cid, bool) bool { return true }},
		// two slices in a row, each with its own bounds (xs[1:][:2] = [1, 2]; name[1:][:2] = characters 1 and 2)
		{`not(== .xs[1:][:2] [1,2])`, policy.Not(policy.Equal(".xs[1:][:2]", nList(nInt(1), nInt(2)))), func(string, cid.Cid, bool) bool { return false }},
		{`== .xs[1:][:2] [0,1]`, policy.Equal(".xs[1:][:2]", nList(nInt(0), nInt(1))), func(string, cid.Cid, bool) bool { return false }},
		{`== .xs[:-1][1:] [1..11]`, policy.Equal(".xs[:-1][10:]", nList(nInt(10), nInt(11))), func(string, cid.Cid, bool) bool { return false }},
		{`== .name[1:][:2] "af"`, policy.Equal(".name[1:][:2]", literal.String("af")), func(s string, _ cid.Cid, _ bool) bool { return runeSlice(runeSlice(s, 1, big), 0, 2) == "af" }},
		// a key that is PRESENT with the value null is not an absent key (m = {role: null, tags: [null]})
		{`== .m.role? "guest"`, policy.Equal(".m.role?", literal.String("guest")), func(string, cid.Cid, bool) bool { return false }},
		{`not(== .m.role? null)`, policy.Not(policy.Equal(".m.role?", literal.Null())), func(string, cid.Cid, bool) bool { return false }},
		{`like .m.role? "g*"`, policy.Like(".m.role?", "g*"), func(string, cid.Cid, bool) bool { return false }},
		{`> .m["role"]? 0`, policy.GreaterThan(`.m["role"]?`, literal.Int(0)), func(string, cid.Cid, bool) bool { return false }},
		{`all .m.tags (== . 1)`, policy.All(".m.tags", policy.Equal(".", literal.Int(1))), func(string, cid.Cid, bool) bool { return false }},
	}
}

type c03ValCase struct {
	Stmt int `json:"stmt"`
	Link int `json:"link"` // which link carries the statement: -1 = single-link chain, 0 = leaf, 1 = root
}

func (c *c03ValCase) Weight() int { return c.Stmt }

func c03ValuesSub(dir string) *engine.Sub {
	name := "pins-on-links-and-character-slices"
	if dir == "complete" {
		name += "-completeness"
	}
	stmts := c03ValStmts()
	names := []string{"café.exe", "cafe.exe", "café.exf", "é", "xé", "日本語.exe", "\U0001F600.exe", "exe", "", "caféé.exe"}
	type lk struct {
		n      string
		c      cid.Cid
		isLink bool
	}
	links := []lk{{"link(cbor,h0)", cidPool[0], true}, {"link(raw,h0)", cid.NewCidV1(cid.Raw, cidPool[0].Hash()), true}, {"link(v0,h0)", cid.NewCidV0(cidPool[0].Hash()), true},
		{"link(json,h0)", cid.NewCidV1(cid.DagJSON, cidPool[0].Hash()), true}, {"link(cbor,h1)", cidPool[1], true}, {"string-of-the-cid", cidPool[0], false}}
	return &engine.Sub{
		Name: name,
		Rule: "chains whose policy holds one of " + fmt.Sprint(len(stmts)) + " statements - a link pinned with == (bare, negated, under any) and conditions on character slices of a string with negative bounds, on list indexes written with leading zeros (decimal), on two slices in a row with different bounds, on float bounds missed by one ulp, and on a key that is present with the value null (not absent) - on the leaf, the root or a single link; arguments: k (and the one-element list ks) = the pinned link, the same digest under raw / dag-json codec or CIDv0, another digest, or the CID's text; name = 10 strings with characters of 1 - 4 bytes; both APIs, delegations in memory and sealed + decoded; reference = CID identity / slices by character, independent of the real Match; non-trivial = all",
		Bound: func(string) string {
			return fmt.Sprintf("%d statements x 3 placements x %d links x %d strings x 2 APIs x 2 token forms", len(stmts), len(links), len(names))
		},
		Setup: func(string) error { chainInit(); return nil },
		Gen: func(tier string, emit func(any) bool) {
			for s := range stmts {
				for l := -1; l <= 1; l++ {
					if !emit(&c03ValCase{Stmt: s, Link: l}) {
						return
					}
				}
			}
		},
		NewCase: func() any { return &c03ValCase{} },
		Run: func(ctx *engine.Ctx, c any) {
			cs := c.(*c03ValCase)
			st := stmts[cs.Stmt]
			pol := policy.MustConstruct(st.Cons)
			n := 1
			if cs.Link >= 0 {
				n = 2
			}
			keys := fixtures.ByAlg("ed25519")
			var mem, dec sliceLoader
			prf := make([]cid.Cid, n)
			for i := 0; i < n; i++ {
				var p policy.Policy
				if cs.Link < 0 || cs.Link == i {
					p = pol
				}
				d := mustDlg(alignedHolder(n, i+1), alignedHolder(n, i), 0, "/a", p)
				data, _, err := d.ToSealed(keys[alignedHolder(n, i+1)].Priv)
				if err != nil {
					panic(err)
				}
				d2, _, err := delegation.FromSealed(data)
				if err != nil {
					panic(err)
				}
				prf[i] = cidPool[10+i]
				mem.cids, mem.toks = append(mem.cids, prf[i]), append(mem.toks, d)
				dec.cids, dec.toks = append(dec.cids, prf[i]), append(dec.toks, d2)
			}
			ctx.States(1)
			for _, nm := range names {
				for _, l := range links {
					a := args.New()
					_ = a.Add("name", nm)
					_ = a.Add("xs", []int{0, 1, 2, 3, 4, 5, 6, 7, 8, 9, 10, 11})
					_ = a.Add("f", math.Nextafter(0.3, 1))
					_ = a.Add("g", math.Nextafter(0.3, 0))
					if err := a.Add("m", nMap(kv{"role", nNull()}, kv{"tags", nList(nNull())})); err != nil {
						panic(err)
					}
					if l.isLink {
						_ = a.Add("k", l.c)
						_ = a.Add("ks", []cid.Cid{l.c})
					} else {
						_ = a.Add("k", l.c.String())
						_ = a.Add("ks", []string{l.c.String()})
					}
					inv, err := invocation.New(prin(alignedHolder(n, 0)), prin(0), "/a", prf, invocation.WithNonce(fixedNonce), invocation.WithoutInvokedAt(), invocation.WithArguments(a))
					if err != nil {
						panic(err)
					}
					want := st.Ref(nm, l.c, l.isLink)
					ctx.Nontrivial(1)
					for k, ld := range []*sliceLoader{&mem, &dec} {
						e1, e2 := bothVerdicts(inv, ld)
						ctx.Eval(2)
						ctx.Trans(1)
						ctx.Outcome(errLabel(e1))
						for _, e := range []error{e1, e2} {
							if dir == "sound" && e == nil && !want {
								ctx.Failf(cs, "allowed-despite-statement/"+fmt.Sprint(cs.Stmt), "%s (delegations %s) is false for name=%q k=%s, yet the invocation is allowed", st.Name, [2]string{"in memory", "sealed+decoded"}[k], nm, l.n)
							}
							if dir == "complete" && e != nil && want {
								ctx.Failf(cs, "denied-despite-statement/"+fmt.Sprint(cs.Stmt), "%s (delegations %s) is true for name=%q k=%s, yet the invocation is denied: %v", st.Name, [2]string{"in memory", "sealed+decoded"}[k], nm, l.n, e)
							}
						}
					}
				}
			}
		},
	}
}
