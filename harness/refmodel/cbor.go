package refmodel

import (
	"encoding/binary"
	"errors"
	"fmt"
	"math"
)

// CborItem is a syntactic CBOR data item: it remembers *how* it was encoded
// (head width, definite/indefinite length) so that data-preserving
// re-encodings can be enumerated. Independent of go-ipld-prime.
type CborItem struct {
	Major  byte       `json:"m"`
	Arg    uint64     `json:"a"`           // value, length, tag number, simple value or float bits
	Width  int        `json:"w"`           // bytes of the argument after the initial byte: 0,1,2,4,8
	Indef  bool       `json:"i,omitempty"` // indefinite length (majors 2,3,4,5)
	Data   []byte     `json:"d,omitempty"` // definite string content
	Chunks []CborItem `json:"c,omitempty"` // chunks of an indefinite string
	Kids   []CborItem `json:"k,omitempty"` // array elements; map key,value pairs flattened; tag content
}

var errCborShort = errors.New("cbor: unexpected end of input")

// ParseCbor parses one item and returns the remaining bytes.
func ParseCbor(b []byte) (CborItem, []byte, error) {
	return parseCbor(b, 0)
}

func parseCbor(b []byte, depth int) (CborItem, []byte, error) {
	if depth > 512 {
		return CborItem{}, nil, errors.New("cbor: too deep")
	}
	if len(b) == 0 {
		return CborItem{}, nil, errCborShort
	}
	ib := b[0]
	it := CborItem{Major: ib >> 5}
	ai := ib & 0x1f
	b = b[1:]
	switch {
	case ai < 24:
		it.Arg = uint64(ai)
	case ai == 24:
		if len(b) < 1 {
			return it, nil, errCborShort
		}
		it.Arg, it.Width, b = uint64(b[0]), 1, b[1:]
	case ai == 25:
		if len(b) < 2 {
			return it, nil, errCborShort
		}
		it.Arg, it.Width, b = uint64(binary.BigEndian.Uint16(b)), 2, b[2:]
	case ai == 26:
		if len(b) < 4 {
			return it, nil, errCborShort
		}
		it.Arg, it.Width, b = uint64(binary.BigEndian.Uint32(b)), 4, b[4:]
	case ai == 27:
		if len(b) < 8 {
			return it, nil, errCborShort
		}
		it.Arg, it.Width, b = binary.BigEndian.Uint64(b), 8, b[8:]
	case ai == 31:
		if it.Major < 2 || it.Major > 5 {
			return it, nil, fmt.Errorf("cbor: indefinite length on major %d", it.Major)
		}
		it.Indef = true
	default:
		return it, nil, fmt.Errorf("cbor: reserved additional info %d", ai)
	}
	switch it.Major {
	case 0, 1, 7:
		return it, b, nil
	case 2, 3:
		if it.Indef {
			for {
				if len(b) == 0 {
					return it, nil, errCborShort
				}
				if b[0] == 0xff {
					return it, b[1:], nil
				}
				ch, rest, err := parseCbor(b, depth+1)
				if err != nil {
					return it, nil, err
				}
				if ch.Major != it.Major || ch.Indef {
					return it, nil, errors.New("cbor: bad chunk")
				}
				it.Chunks = append(it.Chunks, ch)
				b = rest
			}
		}
		if uint64(len(b)) < it.Arg {
			return it, nil, errCborShort
		}
		it.Data = append([]byte{}, b[:it.Arg]...)
		return it, b[it.Arg:], nil
	case 4, 5:
		n := it.Arg
		if it.Major == 5 {
			n *= 2
		}
		for i := uint64(0); it.Indef || i < n; i++ {
			if len(b) == 0 {
				return it, nil, errCborShort
			}
			if it.Indef && b[0] == 0xff {
				b = b[1:]
				break
			}
			k, rest, err := parseCbor(b, depth+1)
			if err != nil {
				return it, nil, err
			}
			it.Kids = append(it.Kids, k)
			b = rest
		}
		return it, b, nil
	case 6:
		k, rest, err := parseCbor(b, depth+1)
		if err != nil {
			return it, nil, err
		}
		it.Kids = []CborItem{k}
		return it, rest, nil
	}
	return it, nil, errors.New("cbor: unreachable")
}

func appendHead(out []byte, major byte, arg uint64, width int) []byte {
	m := major << 5
	switch width {
	case 0:
		return append(out, m|byte(arg))
	case 1:
		return append(out, m|24, byte(arg))
	case 2:
		return append(out, m|25, byte(arg>>8), byte(arg))
	case 4:
		return append(out, m|26, byte(arg>>24), byte(arg>>16), byte(arg>>8), byte(arg))
	default:
		var b [8]byte
		binary.BigEndian.PutUint64(b[:], arg)
		return append(append(out, m|27), b[:]...)
	}
}

// MinWidth is the shortest head width able to carry arg.
func MinWidth(arg uint64) int {
	switch {
	case arg < 24:
		return 0
	case arg <= 0xff:
		return 1
	case arg <= 0xffff:
		return 2
	case arg <= 0xffffffff:
		return 4
	}
	return 8
}

// Encode serialises the item exactly as described.
func (it CborItem) Encode() []byte { return it.appendTo(nil) }

func (it CborItem) appendTo(out []byte) []byte {
	switch it.Major {
	case 0, 1, 7:
		return appendHead(out, it.Major, it.Arg, it.Width)
	case 2, 3:
		if it.Indef {
			out = append(out, it.Major<<5|31)
			for _, c := range it.Chunks {
				out = c.appendTo(out)
			}
			return append(out, 0xff)
		}
		out = appendHead(out, it.Major, uint64(len(it.Data)), it.Width)
		return append(out, it.Data...)
	case 4, 5:
		if it.Indef {
			out = append(out, it.Major<<5|31)
		} else {
			n := uint64(len(it.Kids))
			if it.Major == 5 {
				n /= 2
			}
			out = appendHead(out, it.Major, n, it.Width)
		}
		for _, k := range it.Kids {
			out = k.appendTo(out)
		}
		if it.Indef {
			out = append(out, 0xff)
		}
		return out
	case 6:
		out = appendHead(out, 6, it.Arg, it.Width)
		return it.Kids[0].appendTo(out)
	}
	panic("bad major")
}

// Clone deep-copies the item.
func (it CborItem) Clone() CborItem {
	c := it
	c.Data = append([]byte(nil), it.Data...)
	c.Chunks = nil
	for _, x := range it.Chunks {
		c.Chunks = append(c.Chunks, x.Clone())
	}
	c.Kids = nil
	for _, x := range it.Kids {
		c.Kids = append(c.Kids, x.Clone())
	}
	return c
}

// Walk visits every item in pre-order with its path.
func (it *CborItem) Walk(f func(path []int, x *CborItem)) {
	var rec func(p []int, x *CborItem)
	rec = func(p []int, x *CborItem) {
		f(p, x)
		for i := range x.Kids {
			rec(append(append([]int{}, p...), i), &x.Kids[i])
		}
	}
	rec(nil, it)
}

// At returns the item at path.
func (it *CborItem) At(path []int) *CborItem {
	x := it
	for _, i := range path {
		x = &x.Kids[i]
	}
	return x
}

// FloatValue decodes a major-7 float item.
func (it CborItem) FloatValue() (float64, bool) {
	if it.Major != 7 {
		return 0, false
	}
	switch it.Width {
	case 2:
		return float16ToFloat64(uint16(it.Arg)), true
	case 4:
		return float64(math.Float32frombits(uint32(it.Arg))), true
	case 8:
		return math.Float64frombits(it.Arg), true
	}
	return 0, false
}

func float16ToFloat64(h uint16) float64 {
	sign := (h >> 15) & 1
	exp := int((h >> 10) & 0x1f)
	frac := float64(h & 0x3ff)
	var v float64
	switch exp {
	case 0:
		v = math.Ldexp(frac, -24)
	case 31:
		if frac == 0 {
			v = math.Inf(1)
		} else {
			v = math.NaN()
		}
	default:
		v = math.Ldexp(frac+1024, exp-25)
	}
	if sign == 1 {
		v = -v
	}
	return v
}

// Float16Bits returns the float16 encoding of f if it is exact.
func Float16Bits(f float64) (uint16, bool) {
	for h := 0; h < 1<<16; h++ {
		v := float16ToFloat64(uint16(h))
		if v == f && math.Signbit(v) == math.Signbit(f) {
			return uint16(h), true
		}
	}
	return 0, false
}
