package refmodel

import (
	"fmt"
	"strconv"

	"github.com/ipld/go-ipld-prime/datamodel"
	"github.com/ipld/go-ipld-prime/fluent/qp"
	"github.com/ipld/go-ipld-prime/node/basicnode"
)

// Seg is a selector segment descriptor, independent of go-ucan's parser.
type Seg struct {
	Kind   string `json:"kind"` // "field" | "index" | "slice" | "iter"
	Field  string `json:"field,omitempty"`
	Quoted bool   `json:"quoted,omitempty"` // ["field"] instead of .field
	Index  int    `json:"index,omitempty"`
	Lo     *int   `json:"lo,omitempty"`
	Hi     *int   `json:"hi,omitempty"`
	Opt    bool   `json:"opt,omitempty"`
	// Spell, if set, is a non-canonical decimal spelling of Index (or of Lo / Hi for
	// slices: "lo:hi") with the same value, e.g. "010" for 10: selectors are decimal.
	Spell string `json:"spell,omitempty"`
}

// Text renders the segment in selector syntax.
func (s Seg) Text() string {
	q := ""
	if s.Opt {
		q = "?"
	}
	switch s.Kind {
	case "field":
		if s.Quoted {
			return `["` + s.Field + `"]` + q
		}
		return "." + s.Field + q
	case "index":
		if s.Spell != "" {
			return "[" + s.Spell + "]" + q
		}
		return "[" + strconv.Itoa(s.Index) + "]" + q
	case "slice":
		lo, hi := "", ""
		if s.Lo != nil {
			lo = strconv.Itoa(*s.Lo)
		}
		if s.Hi != nil {
			hi = strconv.Itoa(*s.Hi)
		}
		if s.Spell != "" {
			return "[" + s.Spell + "]" + q
		}
		return "[" + lo + ":" + hi + "]" + q
	case "iter":
		return "[]" + q
	}
	panic("bad seg kind " + s.Kind)
}

// SelText renders a sequence of segments; the empty sequence is the identity ".".
func SelText(segs []Seg) string {
	if len(segs) == 0 {
		return "."
	}
	t := ""
	for i, s := range segs {
		st := s.Text()
		if i == 0 && st[0] != '.' {
			t = "."
		}
		t += st
	}
	return t
}

// Outcome of a reference resolution.
type SelStatus int

const (
	SelValue    SelStatus = iota // a node
	SelNoValue                   // optional segment did not match
	SelError                     // a non-optional segment failed
	SelDontCare                  // the property does not decide
)

func (s SelStatus) String() string {
	return [...]string{"value", "no-value", "error", "dont-care"}[s]
}

type SelResult struct {
	Status SelStatus
	Node   datamodel.Node
	// MapOrder is set when the value is the list of a map's values with >= 2
	// entries: its order is not decided by the property.
	MapOrder bool
}

// pySlice is Python's slice index arithmetic with clamping (step 1).
func pySlice(lo, hi *int, n int) (int, int) {
	start, end := 0, n
	if lo != nil {
		start = *lo
		if start < 0 {
			start += n
			if start < 0 {
				start = 0
			}
		} else if start > n {
			start = n
		}
	}
	if hi != nil {
		end = *hi
		if end < 0 {
			end += n
			if end < 0 {
				end = 0
			}
		} else if end > n {
			end = n
		}
	}
	if start > end {
		return 0, 0
	}
	return start, end
}

// ApplySeg applies one segment to the current state.
func ApplySeg(cur SelResult, s Seg) SelResult {
	fail := func() SelResult {
		if !s.Opt {
			return SelResult{Status: SelError}
		}
		if s.Kind == "field" || s.Kind == "index" {
			return SelResult{Status: SelNoValue}
		}
		return SelResult{Status: SelDontCare}
	}
	switch cur.Status {
	case SelError, SelDontCare:
		return cur
	case SelNoValue:
		return fail()
	}
	n := cur.Node
	switch s.Kind {
	case "field":
		if n.Kind() != datamodel.Kind_Map {
			return fail()
		}
		v, err := n.LookupByString(s.Field)
		if err != nil {
			return fail()
		}
		return SelResult{Status: SelValue, Node: v}
	case "index":
		switch n.Kind() {
		case datamodel.Kind_List:
			if cur.MapOrder {
				return SelResult{Status: SelDontCare}
			}
			l := int(n.Length())
			i := s.Index
			if i < 0 {
				i += l
			}
			if i < 0 || i >= l {
				return fail()
			}
			v, err := n.LookupByIndex(int64(i))
			if err != nil {
				panic(err)
			}
			return SelResult{Status: SelValue, Node: v}
		case datamodel.Kind_Bytes:
			b, _ := n.AsBytes()
			i := s.Index
			if i < 0 {
				i += len(b)
			}
			if i < 0 || i >= len(b) {
				return fail()
			}
			return SelResult{Status: SelValue, Node: basicnode.NewInt(int64(b[i]))}
		default:
			return fail()
		}
	case "slice":
		switch n.Kind() {
		case datamodel.Kind_List:
			if cur.MapOrder {
				return SelResult{Status: SelDontCare}
			}
			a, b := pySlice(s.Lo, s.Hi, int(n.Length()))
			out, err := qp.BuildList(basicnode.Prototype.Any, int64(b-a), func(la datamodel.ListAssembler) {
				for i := a; i < b; i++ {
					v, _ := n.LookupByIndex(int64(i))
					qp.ListEntry(la, qp.Node(v))
				}
			})
			if err != nil {
				panic(err)
			}
			return SelResult{Status: SelValue, Node: out}
		case datamodel.Kind_Bytes:
			bs, _ := n.AsBytes()
			a, b := pySlice(s.Lo, s.Hi, len(bs))
			return SelResult{Status: SelValue, Node: basicnode.NewBytes(append([]byte{}, bs[a:b]...))}
		case datamodel.Kind_String:
			str, _ := n.AsString()
			r := []rune(str)
			a, b := pySlice(s.Lo, s.Hi, len(r))
			return SelResult{Status: SelValue, Node: basicnode.NewString(string(r[a:b]))}
		default:
			return fail()
		}
	case "iter":
		switch n.Kind() {
		case datamodel.Kind_List:
			return cur
		case datamodel.Kind_Map:
			out, err := qp.BuildList(basicnode.Prototype.Any, n.Length(), func(la datamodel.ListAssembler) {
				it := n.MapIterator()
				for !it.Done() {
					_, v, err := it.Next()
					if err != nil {
						panic(err)
					}
					qp.ListEntry(la, qp.Node(v))
				}
			})
			if err != nil {
				panic(err)
			}
			return SelResult{Status: SelValue, Node: out, MapOrder: n.Length() >= 2}
		default:
			return fail()
		}
	}
	panic(fmt.Sprintf("bad seg %+v", s))
}

// Resolve folds ApplySeg over the segments.
func Resolve(segs []Seg, v datamodel.Node) SelResult {
	cur := SelResult{Status: SelValue, Node: v}
	for _, s := range segs {
		cur = ApplySeg(cur, s)
	}
	return cur
}
