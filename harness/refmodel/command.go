// Package refmodel holds the boring reference models. Nothing here imports go-ucan.
package refmodel

import (
	"strings"
	"unicode"
)

// CmdValid is the reference grammar of a UCAN command: leading slash, no
// trailing slash except for "/" itself, no upper-case letters.
func CmdValid(s string) bool {
	if len(s) == 0 || s[0] != '/' {
		return false
	}
	if len(s) > 1 && s[len(s)-1] == '/' {
		return false
	}
	for _, r := range s {
		if unicode.ToLower(r) != r {
			return false
		}
	}
	return true
}

// CmdSegs splits a valid command into its segments ("/" has none).
func CmdSegs(s string) []string {
	if s == "/" {
		return []string{}
	}
	return strings.Split(s[1:], "/")
}

// CmdCovers is the segment-prefix order.
func CmdCovers(x, y string) bool {
	a, b := CmdSegs(x), CmdSegs(y)
	if len(a) > len(b) {
		return false
	}
	for i := range a {
		if a[i] != b[i] {
			return false
		}
	}
	return true
}
