package refmodel

// GlobTok is one token of a parsed glob pattern.
type GlobTok struct {
	Star bool
	Ch   byte
}

// GlobParse tokenizes a pattern: unescaped '*' is a wildcard, '\c' is the
// literal c, any other byte stands for itself. ok=false iff the pattern ends
// in a lone backslash.
func GlobParse(p string) (toks []GlobTok, ok bool) {
	for i := 0; i < len(p); i++ {
		switch {
		case p[i] == '*':
			toks = append(toks, GlobTok{Star: true})
		case p[i] == '\\':
			if i+1 >= len(p) {
				return nil, false
			}
			i++
			toks = append(toks, GlobTok{Ch: p[i]})
		default:
			toks = append(toks, GlobTok{Ch: p[i]})
		}
	}
	return toks, true
}

// GlobMatch decides membership of s in the language of toks by dynamic programming.
func GlobMatch(toks []GlobTok, s string) bool {
	// cur[j] = tokens consumed so far can match s[:j]
	cur := make([]bool, len(s)+1)
	cur[0] = true
	for _, t := range toks {
		next := make([]bool, len(s)+1)
		if t.Star {
			seen := false
			for j := 0; j <= len(s); j++ {
				if cur[j] {
					seen = true
				}
				next[j] = seen
			}
		} else {
			for j := 0; j < len(s); j++ {
				if cur[j] && s[j] == t.Ch {
					next[j+1] = true
				}
			}
		}
		cur = next
	}
	return cur[len(s)]
}
