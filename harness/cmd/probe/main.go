package main

import (
	"fmt"

	"github.com/ucan-wg/go-ucan/did"
	"github.com/ucan-wg/go-ucan/pkg/command"
)

func main() {
	_, d, _ := did.GenerateEd25519()
	fmt.Println(d, command.Top())
}
