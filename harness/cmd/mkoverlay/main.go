// Command mkoverlay writes the build overlay that lets the cooperative scheduler see the
// synchronization of go-ucan:  mkoverlay <repo> <shimdir> <outdir>
//
// For every non-test .go file of <repo>:
//   - imports of "sync" and "sync/atomic" are redirected to the shim packages (same package names,
//     so no identifier changes);
//   - every statement that contains a channel operation (send, receive, select, range over a
//     channel cannot be told apart syntactically and is left alone) gets a scheduling point before
//     and after it, and every `go` statement one before it;
//   - plain receives (`<-ch` as a statement, `v := <-ch`, `v = <-ch`, `v, ok := <-ch`; not the headers of
//     select clauses) become verifsched.Recv / Recv2: the scheduler disables the thread until a value or
//     the close is there, instead of letting the coroutine block for real.
//
// The shim packages are added as virtual directories <repo>/verifshim/{sched,sync,sync/atomic,clock};
// calls of time.Now are redirected to verifshim/clock (the machine's clock unless a check installs a source).
// <repo> itself is not touched; files that need no change are not in the overlay.
package main

import (
	"bytes"
	"encoding/json"
	"fmt"
	"go/ast"
	"go/format"
	"go/parser"
	"go/token"
	"os"
	"path/filepath"
	"strconv"
	"strings"
)

const mod = "github.com/ucan-wg/go-ucan"

func main() {
	if len(os.Args) != 4 {
		fmt.Fprintln(os.Stderr, "usage: mkoverlay <repo> <shimdir> <outdir>")
		os.Exit(2)
	}
	repo, _ := filepath.Abs(os.Args[1])
	shim, _ := filepath.Abs(os.Args[2])
	out, _ := filepath.Abs(os.Args[3])
	if err := os.MkdirAll(out, 0o755); err != nil {
		fail(err)
	}
	repl := map[string]string{}
	for _, p := range [][2]string{{"sched", "verifshim/sched"}, {"sync", "verifshim/sync"}, {"atomic", "verifshim/sync/atomic"}, {"clock", "verifshim/clock"}} {
		ents, err := os.ReadDir(filepath.Join(shim, p[0]))
		if err != nil {
			fail(err)
		}
		for _, e := range ents {
			if strings.HasSuffix(e.Name(), ".go") {
				repl[filepath.Join(repo, p[1], e.Name())] = filepath.Join(shim, p[0], e.Name())
			}
		}
	}
	n := 0
	err := filepath.WalkDir(repo, func(path string, d os.DirEntry, err error) error {
		if err != nil {
			return err
		}
		if d.IsDir() {
			switch d.Name() {
			case ".git", "verifshim", "testdata", "vendor":
				return filepath.SkipDir
			}
			return nil
		}
		if !strings.HasSuffix(path, ".go") || strings.HasSuffix(path, "_test.go") {
			return nil
		}
		src, err := os.ReadFile(path)
		if err != nil {
			return nil
		}
		if !bytes.Contains(src, []byte(`"sync`)) && !bytes.Contains(src, []byte("<-")) && !bytes.Contains(src, []byte("select")) && !bytes.Contains(src, []byte("go ")) && !bytes.Contains(src, []byte("time.Now")) {
			return nil
		}
		res, changed, err := rewrite(path, src)
		if err != nil {
			return fmt.Errorf("%s: %w", path, err)
		}
		if !changed {
			return nil
		}
		n++
		q := filepath.Join(out, fmt.Sprintf("f%04d_%s", n, filepath.Base(path)))
		if err := os.WriteFile(q, res, 0o644); err != nil {
			return err
		}
		repl[path] = q
		return nil
	})
	if err != nil {
		fail(err)
	}
	b, _ := json.MarshalIndent(map[string]any{"Replace": repl}, "", " ")
	if err := os.WriteFile(filepath.Join(out, "overlay.json"), b, 0o644); err != nil {
		fail(err)
	}
	fmt.Println(filepath.Join(out, "overlay.json"))
}

func fail(err error) {
	fmt.Fprintln(os.Stderr, "mkoverlay:", err)
	os.Exit(2)
}

func rewrite(path string, src []byte) ([]byte, bool, error) {
	fset := token.NewFileSet()
	f, err := parser.ParseFile(fset, path, src, parser.ParseComments)
	if err != nil {
		return nil, false, err
	}
	changed := false
	for _, im := range f.Imports {
		p, _ := strconv.Unquote(im.Path.Value)
		if p == "sync" || p == "sync/atomic" {
			im.Path.Value = strconv.Quote(mod + "/verifshim/" + p)
			changed = true
		}
	}
	instrumented := false
	point := func(op string) ast.Stmt {
		return &ast.ExprStmt{X: &ast.CallExpr{Fun: &ast.SelectorExpr{X: ast.NewIdent("verifsched"), Sel: ast.NewIdent("Point")}, Args: []ast.Expr{&ast.BasicLit{Kind: token.STRING, Value: strconv.Quote(op)}}}}
	}
	// plain receives - the statement `<-ch`, `v := <-ch`, `v = <-ch`, `v, ok := <-ch` outside select headers - become
	// verifsched.Recv / Recv2: the scheduler then knows that the thread waits and for what (a receive that the
	// harness cannot see would block the coroutine for real and the whole exploration with it)
	inSelect := map[ast.Stmt]bool{}
	ast.Inspect(f, func(n ast.Node) bool {
		if cc, ok := n.(*ast.CommClause); ok && cc.Comm != nil {
			inSelect[cc.Comm] = true
		}
		return true
	})
	recvCall := func(fn string, ch ast.Expr) ast.Expr {
		return &ast.CallExpr{Fun: &ast.SelectorExpr{X: ast.NewIdent("verifsched"), Sel: ast.NewIdent(fn)}, Args: []ast.Expr{ch}}
	}
	ast.Inspect(f, func(n ast.Node) bool {
		switch st := n.(type) {
		case *ast.ExprStmt:
			if u, ok := st.X.(*ast.UnaryExpr); ok && u.Op == token.ARROW && !inSelect[st] {
				st.X = recvCall("Recv", u.X)
				instrumented = true
			}
		case *ast.AssignStmt:
			if len(st.Rhs) == 1 && !inSelect[st] {
				if u, ok := st.Rhs[0].(*ast.UnaryExpr); ok && u.Op == token.ARROW {
					if len(st.Lhs) == 2 {
						st.Rhs[0] = recvCall("Recv2", u.X)
					} else {
						st.Rhs[0] = recvCall("Recv", u.X)
					}
					instrumented = true
				}
			}
		}
		return true
	})
	var fixList func(list []ast.Stmt) []ast.Stmt
	fixList = func(list []ast.Stmt) []ast.Stmt {
		var res []ast.Stmt
		for _, st := range list {
			kind := chanOp(st)
			if kind == "" {
				res = append(res, st)
				continue
			}
			instrumented = true
			res = append(res, point(kind))
			res = append(res, st)
			if _, isGo := st.(*ast.GoStmt); !isGo && !terminating(st) {
				res = append(res, point(kind+"(after)"))
			}
		}
		return res
	}
	ast.Inspect(f, func(n ast.Node) bool {
		switch b := n.(type) {
		case *ast.BlockStmt:
			b.List = fixList(b.List)
		case *ast.CaseClause:
			b.Body = fixList(b.Body)
		case *ast.CommClause:
			b.Body = fixList(b.Body)
		}
		return true
	})
	// the clock seam: time.Now -> verifclock.Now (files that import "time" under its own name)
	clocked := false
	for _, im := range f.Imports {
		if p, _ := strconv.Unquote(im.Path.Value); p == "time" && (im.Name == nil || im.Name.Name == "time") {
			ast.Inspect(f, func(n ast.Node) bool {
				if sel, ok := n.(*ast.SelectorExpr); ok && sel.Sel.Name == "Now" {
					if id, ok := sel.X.(*ast.Ident); ok && id.Name == "time" && id.Obj == nil {
						id.Name = "verifclock"
						clocked = true
					}
				}
				return true
			})
		}
	}
	if clocked {
		changed = true
		spec := &ast.ImportSpec{Name: ast.NewIdent("verifclock"), Path: &ast.BasicLit{Kind: token.STRING, Value: strconv.Quote(mod + "/verifshim/clock")}}
		f.Decls = append([]ast.Decl{&ast.GenDecl{Tok: token.IMPORT, Specs: []ast.Spec{spec}}}, f.Decls...)
		// keep the time import in use
		keep := &ast.GenDecl{Tok: token.VAR, Specs: []ast.Spec{&ast.ValueSpec{Names: []*ast.Ident{ast.NewIdent("_")}, Type: &ast.SelectorExpr{X: ast.NewIdent("time"), Sel: ast.NewIdent("Duration")}}}}
		f.Decls = append(f.Decls, keep)
	}
	if instrumented {
		changed = true
		// add the import
		spec := &ast.ImportSpec{Name: ast.NewIdent("verifsched"), Path: &ast.BasicLit{Kind: token.STRING, Value: strconv.Quote(mod + "/verifshim/sched")}}
		decl := &ast.GenDecl{Tok: token.IMPORT, Specs: []ast.Spec{spec}}
		f.Decls = append([]ast.Decl{decl}, f.Decls...)
	}
	if !changed {
		return nil, false, nil
	}
	var buf bytes.Buffer
	if err := format.Node(&buf, fset, f); err != nil {
		return nil, false, err
	}
	return buf.Bytes(), true, nil
}

// chanOp tells whether the statement itself (not statements nested in its blocks) performs a
// channel operation or starts a goroutine.
func chanOp(st ast.Stmt) string {
	switch s := st.(type) {
	case *ast.SendStmt:
		return "chan.send"
	case *ast.SelectStmt:
		return "chan.select"
	case *ast.GoStmt:
		return "go"
	case *ast.CommClause, *ast.CaseClause:
		return "" // clauses of a select / switch body: their bodies are visited on their own
	case *ast.BlockStmt, *ast.IfStmt, *ast.ForStmt, *ast.RangeStmt, *ast.SwitchStmt, *ast.TypeSwitchStmt, *ast.LabeledStmt, *ast.DeferStmt:
		// look only at the header expressions of compound statements
		found := ""
		hdr := func(e ast.Node) {
			if e == nil || found != "" {
				return
			}
			ast.Inspect(e, func(n ast.Node) bool {
				switch x := n.(type) {
				case *ast.FuncLit:
					return false
				case *ast.UnaryExpr:
					if x.Op == token.ARROW {
						found = "chan.recv"
					}
				}
				return found == ""
			})
		}
		switch c := s.(type) {
		case *ast.IfStmt:
			if c.Init != nil {
				hdr(c.Init)
			}
			hdr(c.Cond)
		case *ast.ForStmt:
			if c.Init != nil {
				hdr(c.Init)
			}
		case *ast.RangeStmt:
			hdr(c.X)
		case *ast.SwitchStmt:
			if c.Init != nil {
				hdr(c.Init)
			}
			if c.Tag != nil {
				hdr(c.Tag)
			}
		}
		return found
	default:
		found := ""
		ast.Inspect(st, func(n ast.Node) bool {
			switch x := n.(type) {
			case *ast.FuncLit:
				return false
			case *ast.UnaryExpr:
				if x.Op == token.ARROW {
					found = "chan.recv"
				}
			}
			return found == ""
		})
		return found
	}
}

// terminating approximates the "terminating statement" rule of the Go specification, erring on the
// side of "terminating" (then no scheduling point is appended, which costs a point but never a
// compile error such as "missing return").
func terminating(st ast.Stmt) bool {
	ends := func(list []ast.Stmt) bool { return len(list) > 0 && terminating(list[len(list)-1]) }
	switch s := st.(type) {
	case *ast.ReturnStmt, *ast.BranchStmt:
		return true
	case *ast.ExprStmt:
		if c, ok := s.X.(*ast.CallExpr); ok {
			if id, ok := c.Fun.(*ast.Ident); ok && id.Name == "panic" {
				return true
			}
		}
		return false
	case *ast.BlockStmt:
		return ends(s.List)
	case *ast.LabeledStmt:
		return terminating(s.Stmt)
	case *ast.IfStmt:
		return s.Else != nil && ends(s.Body.List) && terminating(s.Else)
	case *ast.ForStmt:
		return s.Cond == nil
	case *ast.SelectStmt:
		for _, c := range s.Body.List {
			if !ends(c.(*ast.CommClause).Body) {
				return false
			}
		}
		return true
	case *ast.SwitchStmt:
		def := false
		for _, c := range s.Body.List {
			cc := c.(*ast.CaseClause)
			if cc.List == nil {
				def = true
			}
			if !ends(cc.Body) {
				return false
			}
		}
		return def
	case *ast.TypeSwitchStmt:
		def := false
		for _, c := range s.Body.List {
			cc := c.(*ast.CaseClause)
			if cc.List == nil {
				def = true
			}
			if !ends(cc.Body) {
				return false
			}
		}
		return def
	}
	return false
}
