// Command check runs one property check: check <Cxx> <quick|thorough> [--replay file]
package main

import (
	"fmt"
	"os"
	"runtime/pprof"
	"strconv"

	"verifharness/engine"
	"verifharness/props"
)

func main() {
	if len(os.Args) < 3 {
		fmt.Fprintln(os.Stderr, "usage: check <property> <quick|thorough> [--replay file]")
		os.Exit(2)
	}
	prop, tier := os.Args[1], os.Args[2]
	if prop == "worker" {
		os.Exit(props.WorkerMain(os.Args[2:]))
	}
	if tier != "quick" && tier != "thorough" {
		if t := os.Getenv("VERIF_TIER"); t == "quick" || t == "thorough" {
			tier = t
		} else {
			tier = "quick"
		}
	}
	replay := ""
	for i := 3; i < len(os.Args); i++ {
		if os.Args[i] == "--replay" && i+1 < len(os.Args) {
			replay = os.Args[i+1]
		}
	}
	var seed int64
	if s := os.Getenv("VERIF_SEED"); s != "" {
		seed, _ = strconv.ParseInt(s, 10, 64)
	}
	if pf := os.Getenv("VERIF_CPUPROFILE"); pf != "" {
		f, err := os.Create(pf)
		if err == nil {
			pprof.StartCPUProfile(f)
			defer pprof.StopCPUProfile()
		}
	}
	mk, ok := props.Registry[prop]
	if !ok {
		fmt.Fprintf(os.Stderr, "unknown property %q\n", prop)
		os.Exit(2)
	}
	rc := engine.Main(mk(seed), tier, seed, replay)
	pprof.StopCPUProfile()
	os.Exit(rc)
}
