// Command genfixtures generates the fixed key fixtures (run once; output committed).
package main

import (
	"crypto/elliptic"
	"crypto/rand"
	"encoding/base64"
	"encoding/json"
	"fmt"
	"os"

	"github.com/libp2p/go-libp2p/core/crypto"
)

type key struct {
	Alg  string `json:"alg"`
	Priv string `json:"priv"` // base64(libp2p crypto.MarshalPrivateKey)
}

func main() {
	var out []key
	add := func(alg string, p crypto.PrivKey, err error) {
		if err != nil {
			panic(err)
		}
		b, err := crypto.MarshalPrivateKey(p)
		if err != nil {
			panic(err)
		}
		out = append(out, key{alg, base64.StdEncoding.EncodeToString(b)})
	}
	for i := 0; i < 4; i++ {
		p, _, err := crypto.GenerateEd25519Key(rand.Reader)
		add("ed25519", p, err)
	}
	for i := 0; i < 3; i++ {
		p, _, err := crypto.GenerateSecp256k1Key(rand.Reader)
		add("secp256k1", p, err)
	}
	for i := 0; i < 3; i++ {
		p, _, err := crypto.GenerateECDSAKeyPairWithCurve(elliptic.P256(), rand.Reader)
		add("p256", p, err)
	}
	for i := 0; i < 2; i++ {
		p, _, err := crypto.GenerateECDSAKeyPairWithCurve(elliptic.P384(), rand.Reader)
		add("p384", p, err)
	}
	for i := 0; i < 2; i++ {
		p, _, err := crypto.GenerateECDSAKeyPairWithCurve(elliptic.P521(), rand.Reader)
		add("p521", p, err)
	}
	p, _, err := crypto.GenerateRSAKeyPair(2048, rand.Reader)
	add("rsa2048", p, err)
	p, _, err = crypto.GenerateRSAKeyPair(3072, rand.Reader)
	add("rsa3072", p, err)
	b, _ := json.MarshalIndent(out, "", " ")
	if err := os.WriteFile("fixtures/keys.json", b, 0o644); err != nil {
		panic(err)
	}
	fmt.Println("wrote", len(out), "keys")
}
