// mkcollide searches pairs of did:key identifiers that collide under the standard library's 32-bit
// hashes and writes them to fixtures/collisions.json. Y is the identifier of a real Ed25519 key (the
// seed index is recorded, so that the harness can sign as Y), X is a valid Ed25519 did:key without a
// known private key. The search is a deterministic birthday search; the harness recomputes the
// hashes at start-up, so a stale file is detected.
package main

import (
	"crypto/sha256"
	"encoding/json"
	"fmt"
	"os"
	"sort"

	"verifharness/fixtures"
)

func main() {
	nReal, nSynth := 1<<16, 1<<19
	type ent struct {
		idx int
		s   string
	}
	res := map[string][]fixtures.Collision{}
	real := make([]string, nReal)
	for i := range real {
		_, d := fixtures.CollideReal(i)
		real[i] = d.String()
	}
	for _, h := range fixtures.Hashes32 {
		tab := make(map[uint32]int, nReal)
		for i, s := range real {
			tab[h.Sum([]byte(s))] = i
		}
		for j := 0; j < nSynth && len(res[h.Name]) < 3; j++ {
			x := fixtures.CollideSynth(j).String()
			if i, ok := tab[h.Sum([]byte(x))]; ok && len(real[i]) == len(x) && real[i] != x {
				res[h.Name] = append(res[h.Name], fixtures.Collision{Hash: h.Name, Seed: i, Y: real[i], X: x, XSeed: j})
			}
		}
		fmt.Fprintln(os.Stderr, h.Name, len(res[h.Name]))
	}
	var out []fixtures.Collision
	var names []string
	for n := range res {
		names = append(names, n)
	}
	sort.Strings(names)
	for _, n := range names {
		out = append(out, res[n]...)
	}
	b, _ := json.MarshalIndent(out, "", " ")
	_ = sha256.New
	if err := os.WriteFile(os.Args[1], append(b, '\n'), 0o644); err != nil {
		panic(err)
	}
}
